#![allow(unused_imports, dead_code, unused_variables, unused_mut)]
use vstd::prelude::*;
use std::cmp::Ordering;
#[derive(Clone, Debug, PartialEq)]
pub struct AmqpProperties { _p: u8 }
verus! {
global size_of usize == 8;
#[verifier::external_type_specification]
#[verifier::external_body]
pub struct ExAmqpProperties(AmqpProperties);

pub enum Error { FrameUnexpected }
pub type Result<T> = std::result::Result<T, Error>;
pub struct FrameUnexpectedSnafu;
impl FrameUnexpectedSnafu { pub fn fail<T>(self) -> (r: Result<T>) ensures r == Err::<T, Error>(Error::FrameUnexpected) { Err(Error::FrameUnexpected) } }

// generated mirrors (amq_protocol)
pub struct Deliver { pub consumer_tag: String, pub delivery_tag: u64, pub redelivered: bool, pub exchange: String, pub routing_key: String }
pub struct AmqpGetOk { pub delivery_tag: u64, pub redelivered: bool, pub exchange: String, pub routing_key: String, pub message_count: u32 }
pub type GetOk = AmqpGetOk;
pub struct AmqpReturn { pub reply_code: u16, pub reply_text: String, pub exchange: String, pub routing_key: String }
pub struct AMQPContentHeader { pub class_id: u16, pub weight: u16, pub body_size: u64, pub properties: AmqpProperties }

// assumed contract replacing Vec::with_capacity (R8): documented panic condition
#[verifier::external_body]
pub fn vec_with_capacity<T>(n: usize) -> (r: Vec<T>) requires n <= isize::MAX ensures r@.len() == 0 { Vec::with_capacity(n) }

// crate types (struct definitions extracted from delivery.rs / return_.rs / get.rs)
pub struct Delivery { pub channel_id: u16, pub delivery_tag: u64, pub redelivered: bool, pub exchange: String, pub routing_key: String, pub body: Vec<u8>, pub properties: AmqpProperties }
pub struct Return { pub reply_code: u16, pub reply_text: String, pub exchange: String, pub routing_key: String, pub content: Vec<u8>, pub properties: AmqpProperties }
pub struct Get { pub delivery: Delivery, pub message_count: u32 }
impl Delivery {
    pub fn new(
        channel_id: u16,
        deliver: Deliver,
        body: Vec<u8>,
        properties: AmqpProperties,
    ) -> (r: (String, Delivery))
        ensures r == (deliver.consumer_tag, Delivery { channel_id, delivery_tag: deliver.delivery_tag, redelivered: deliver.redelivered,
            exchange: deliver.exchange, routing_key: deliver.routing_key, body, properties }),
    {
        (
            deliver.consumer_tag,
            Delivery {
                channel_id,
                delivery_tag: deliver.delivery_tag,
                redelivered: deliver.redelivered,
                exchange: deliver.exchange,
                routing_key: deliver.routing_key,
                body,
                properties,
            },
        )
    }

    pub fn new_get_ok(
        channel_id: u16,
        get_ok: GetOk,
        body: Vec<u8>,
        properties: AmqpProperties,
    ) -> (r: Delivery)
        ensures r == (Delivery { channel_id, delivery_tag: get_ok.delivery_tag, redelivered: get_ok.redelivered,
            exchange: get_ok.exchange, routing_key: get_ok.routing_key, body, properties }),
    {
        Delivery {
            channel_id,
            delivery_tag: get_ok.delivery_tag,
            redelivered: get_ok.redelivered,
            exchange: get_ok.exchange,
            routing_key: get_ok.routing_key,
            body,
            properties,
        }
    }
}
impl Return {
    pub fn new(ret: AmqpReturn, content: Vec<u8>, properties: AmqpProperties) -> (r: Return)
        ensures r == (Return { reply_code: ret.reply_code, reply_text: ret.reply_text, exchange: ret.exchange, routing_key: ret.routing_key, content, properties }),
    {
        Return {
            reply_code: ret.reply_code,
            reply_text: ret.reply_text,
            exchange: ret.exchange,
            routing_key: ret.routing_key,
            content,
            properties,
        }
    }
}
// ================= extracted: src/io_loop/content_collector.rs =================
pub struct ContentCollector {
    channel_id: u16,
    kind: Option<Kind>,
}

pub enum CollectorResult {
    Delivery((String, Delivery)),
    Return(Return),
    Get(Get),
}

impl ContentCollector {
    pub fn new(channel_id: u16) -> ContentCollector {
        ContentCollector {
            channel_id,
            kind: None,
        }
    }

    pub fn collect_deliver(&mut self, deliver: Deliver) -> Result<()> {
        match self.kind.take() {
            None => {
                self.kind = Some(Kind::Delivery(State::Start(deliver)));
                Ok(())
            }
            Some(_) => FrameUnexpectedSnafu.fail(),
        }
    }

    pub fn collect_return(&mut self, return_: AmqpReturn) -> Result<()> {
        match self.kind.take() {
            None => {
                self.kind = Some(Kind::Return(State::Start(return_)));
                Ok(())
            }
            Some(_) => FrameUnexpectedSnafu.fail(),
        }
    }

    pub fn collect_get(&mut self, get_ok: AmqpGetOk) -> Result<()> {
        match self.kind.take() {
            None => {
                self.kind = Some(Kind::Get(State::Start(get_ok)));
                Ok(())
            }
            Some(_) => FrameUnexpectedSnafu.fail(),
        }
    }

    pub fn collect_header(
        &mut self,
        header: AMQPContentHeader,
    ) -> Result<Option<CollectorResult>>
        requires header.body_size <= isize::MAX as u64,
    {
        match self.kind.take() {
            Some(Kind::Delivery(state)) => match state.collect_header(self.channel_id, header)? {
                Content::Done((tag, delivery)) => {
                    self.kind = None;
                    Ok(Some(CollectorResult::Delivery((tag, delivery))))
                }
                Content::NeedMore(state) => {
                    self.kind = Some(Kind::Delivery(state));
                    Ok(None)
                }
            },
            Some(Kind::Return(state)) => match state.collect_header(self.channel_id, header)? {
                Content::Done(return_) => {
                    self.kind = None;
                    Ok(Some(CollectorResult::Return(return_)))
                }
                Content::NeedMore(state) => {
                    self.kind = Some(Kind::Return(state));
                    Ok(None)
                }
            },
            Some(Kind::Get(state)) => match state.collect_header(self.channel_id, header)? {
                Content::Done(get) => {
                    self.kind = None;
                    Ok(Some(CollectorResult::Get(get)))
                }
                Content::NeedMore(state) => {
                    self.kind = Some(Kind::Get(state));
                    Ok(None)
                }
            },
            None => FrameUnexpectedSnafu.fail(),
        }
    }

    pub fn collect_body(&mut self, body: Vec<u8>) -> Result<Option<CollectorResult>> {
        match self.kind.take() {
            Some(Kind::Delivery(state)) => match state.collect_body(self.channel_id, body)? {
                Content::Done((tag, delivery)) => {
                    self.kind = None;
                    Ok(Some(CollectorResult::Delivery((tag, delivery))))
                }
                Content::NeedMore(state) => {
                    self.kind = Some(Kind::Delivery(state));
                    Ok(None)
                }
            },
            Some(Kind::Return(state)) => match state.collect_body(self.channel_id, body)? {
                Content::Done(return_) => {
                    self.kind = None;
                    Ok(Some(CollectorResult::Return(return_)))
                }
                Content::NeedMore(state) => {
                    self.kind = Some(Kind::Return(state));
                    Ok(None)
                }
            },
            Some(Kind::Get(state)) => match state.collect_body(self.channel_id, body)? {
                Content::Done(get) => {
                    self.kind = None;
                    Ok(Some(CollectorResult::Get(get)))
                }
                Content::NeedMore(state) => {
                    self.kind = Some(Kind::Get(state));
                    Ok(None)
                }
            },
            None => FrameUnexpectedSnafu.fail(),
        }
    }
}

pub enum Kind {
    Delivery(State<Delivery>),
    Return(State<Return>),
    Get(State<Get>),
}

pub trait ContentType {
    type Start;
    type Finish;

    spec fn spec_new(channel_id: u16, start: Self::Start, buf: Vec<u8>, properties: AmqpProperties) -> Self::Finish;

    fn new(
        channel_id: u16,
        start: Self::Start,
        buf: Vec<u8>,
        properties: AmqpProperties,
    ) -> (r: Self::Finish)
        ensures r == Self::spec_new(channel_id, start, buf, properties);
}

impl ContentType for Delivery {
    type Start = Deliver;
    type Finish = (String, Delivery);

    open spec fn spec_new(channel_id: u16, start: Deliver, buf: Vec<u8>, properties: AmqpProperties) -> (String, Delivery) {
        (start.consumer_tag, Delivery { channel_id, delivery_tag: start.delivery_tag, redelivered: start.redelivered,
            exchange: start.exchange, routing_key: start.routing_key, body: buf, properties })
    }

    fn new(
        channel_id: u16,
        start: Self::Start,
        buf: Vec<u8>,
        properties: AmqpProperties,
    ) -> Self::Finish {
        Delivery::new(channel_id, start, buf, properties)
    }
}

impl ContentType for Return {
    type Start = AmqpReturn;
    type Finish = Return;

    open spec fn spec_new(channel_id: u16, start: AmqpReturn, buf: Vec<u8>, properties: AmqpProperties) -> Return {
        Return { reply_code: start.reply_code, reply_text: start.reply_text, exchange: start.exchange, routing_key: start.routing_key, content: buf, properties }
    }

    fn new(
        _channel_id: u16,
        start: Self::Start,
        buf: Vec<u8>,
        properties: AmqpProperties,
    ) -> Self::Finish {
        Return::new(start, buf, properties)
    }
}

impl ContentType for Get {
    type Start = AmqpGetOk;
    type Finish = Get;

    open spec fn spec_new(channel_id: u16, start: AmqpGetOk, buf: Vec<u8>, properties: AmqpProperties) -> Get {
        Get { delivery: Delivery { channel_id, delivery_tag: start.delivery_tag, redelivered: start.redelivered,
                exchange: start.exchange, routing_key: start.routing_key, body: buf, properties },
              message_count: start.message_count }
    }

    fn new(
        channel_id: u16,
        get_ok: AmqpGetOk,
        buf: Vec<u8>,
        properties: AmqpProperties,
    ) -> Self::Finish {
        let message_count = get_ok.message_count;
        let delivery = Delivery::new_get_ok(channel_id, get_ok, buf, properties);
        Get {
            delivery,
            message_count,
        }
    }
}

pub enum Content<T: ContentType> {
    Done(T::Finish),
    NeedMore(State<T>),
}

// Clippy warns about State::Body being much larger than the other variant, but we
// expect almost all instances of State to transition to Body.
pub enum State<T: ContentType> {
    Start(T::Start),
    Body(T::Start, AMQPContentHeader, Vec<u8>),
}

impl<T: ContentType> State<T> {
    fn collect_header(self, channel_id: u16, header: AMQPContentHeader) -> (r: Result<Content<T>>)
        requires header.body_size <= isize::MAX as u64,   // [C07.prealloc] see F5
        ensures match self {
            State::Start(start) => if header.body_size == 0 {
                    r matches Ok(Content::Done(fin)) && (exists|b: Vec<u8>| b@.len() == 0 && fin == T::spec_new(channel_id, start, b, header.properties))
                } else {
                    r matches Ok(Content::NeedMore(State::Body(s2, h2, b2))) && s2 == start && h2 == header && b2@.len() == 0
                },
            State::Body(_, _, _) => r matches Err(Error::FrameUnexpected),
        },
    {
        match self {
            State::Start(start) => {
                if header.body_size == 0 {
                    Ok(Content::Done(T::new(
                        channel_id,
                        start,
                        Vec::new(),
                        header.properties,
                    )))
                } else {
                    let buf = vec_with_capacity(header.body_size as usize);
                    Ok(Content::NeedMore(State::Body(start, header, buf)))
                }
            }
            State::Body(_, _, _) => FrameUnexpectedSnafu.fail(),
        }
    }

    fn collect_body(self, channel_id: u16, mut body: Vec<u8>) -> (r: Result<Content<T>>)
        ensures match self {
            State::Body(start, header, buf) => {
                let got = buf@ + body@;
                if got.len() == header.body_size as usize {
                    r matches Ok(Content::Done(fin)) && (exists|b: Vec<u8>| b@ =~= got && fin == T::spec_new(channel_id, start, b, header.properties))
                } else if got.len() < header.body_size as usize {
                    r matches Ok(Content::NeedMore(State::Body(s2, h2, b2))) && s2 == start && h2 == header && b2@ =~= got
                } else {
                    r matches Err(Error::FrameUnexpected)
                }
            },
            State::Start(_) => r matches Err(Error::FrameUnexpected),
        },
    {
        match self {
            State::Body(start, header, mut buf) => {
                let body_size = header.body_size as usize;
                buf.append(&mut body);
                match buf.len().cmp(&body_size) {
                    Ordering::Equal => {
                        Ok(Content::Done(T::new(
                            channel_id,
                            start,
                            buf,
                            header.properties,
                        )))
                    },
                    Ordering::Less => {
                        Ok(Content::NeedMore(State::Body(start, header, buf)))
                    }
                    _ => {
                        FrameUnexpectedSnafu.fail()
                    }
                }
            }
            State::Start(_) => FrameUnexpectedSnafu.fail(),
        }
    }
}

fn main() {}
}
