#![verifier::allow(autoderive_clone_without_spec)]
use vstd::prelude::*;
use std::collections::HashMap;
verus! {
broadcast use vstd::std_specs::hash::group_hash_axioms;

#[derive(Debug, Clone, Copy, PartialEq)]
pub struct ConfirmPayload {
    pub delivery_tag: u64,
    pub multiple: bool,
}

#[derive(Debug, Clone, Copy, PartialEq)]
pub enum Confirm {
    Ack(ConfirmPayload),
    Nack(ConfirmPayload),
}

#[derive(Debug, Clone)]
pub struct ConfirmSmoother {
    pub expected: u64,
    pub out_of_order: HashMap<u64, Confirm>,
}

struct Iter<'a, F: Fn(u64) -> Confirm> {
    parent: &'a mut ConfirmSmoother,
    payload: ConfirmPayload,
    next: Option<Confirm>,
    to_confirm: F,
    done: bool,
}

impl<'a, F> Iter<'a, F>
where
    F: Fn(u64) -> Confirm,
{
    // outcome the raw confirmation assigns to tag t
    spec fn mk(&self, t: u64) -> Confirm { choose|r: Confirm| call_ensures(self.to_confirm, (t,), r) }

    // covered-but-not-yet-emitted tags, with the outcome of the confirmation that first covered them (pointwise)
    spec fn base_has(&self, t: u64) -> bool {
        t >= self.parent.expected && (self.parent.out_of_order@.contains_key(t) || (self.next is Some && !self.done && t == self.parent.expected))
    }
    spec fn base_val(&self, t: u64) -> Confirm {
        if self.next is Some && !self.done && t == self.parent.expected { self.next->0 } else { self.parent.out_of_order@[t] }
    }
    spec fn payload_covers(&self, t: u64) -> bool {
        !self.done && self.payload.delivery_tag >= self.parent.expected && t >= self.parent.expected
        && (if self.payload.multiple { t <= self.payload.delivery_tag } else { t == self.payload.delivery_tag })
    }
    spec fn pend_has(&self, t: u64) -> bool { self.base_has(t) || self.payload_covers(t) }
    spec fn pend_val(&self, t: u64) -> Confirm { if self.base_has(t) { self.base_val(t) } else { self.mk(t) } }

    spec fn wf(&self) -> bool {
        &&& forall|t: u64| call_requires(self.to_confirm, (t,))
        &&& forall|t: u64, r: Confirm| call_ensures(self.to_confirm, (t,), r) ==> r == self.mk(t)
        &&& self.payload.delivery_tag < u64::MAX
        &&& forall|k: u64| self.parent.out_of_order@.contains_key(k) ==> k < u64::MAX
        &&& !self.parent.out_of_order@.contains_key(self.parent.expected)
        &&& (self.next is Some ==> self.parent.expected < u64::MAX && self.payload.delivery_tag < self.parent.expected)
    }

    fn next(&mut self) -> (r: Option<Confirm>)
        requires old(self).wf(),
            // valid history: a single confirmation never repeats an individually confirmed tag
            !(!old(self).payload.multiple && old(self).parent.out_of_order@.contains_key(old(self).payload.delivery_tag)),
        ensures final(self).wf(),
            final(self).payload == old(self).payload,
            final(self).to_confirm == old(self).to_confirm,
            // pop-if-present on the pending map: the iterator yields exactly the contiguous covered run
            match r {
                Some(c) => old(self).pend_has(old(self).parent.expected)
                    && c == old(self).pend_val(old(self).parent.expected)
                    && final(self).parent.expected == old(self).parent.expected + 1
                    && (forall|t: u64| #![auto] final(self).pend_has(t) == (old(self).pend_has(t) && t != old(self).parent.expected))
                    && (forall|t: u64| #![auto] final(self).pend_has(t) ==> final(self).pend_val(t) == old(self).pend_val(t)),
                None => final(self).done
                    && !old(self).pend_has(old(self).parent.expected)
                    && final(self).parent.expected == old(self).parent.expected
                    && (forall|t: u64| #![auto] final(self).pend_has(t) == old(self).pend_has(t))
                    && (forall|t: u64| #![auto] final(self).pend_has(t) ==> final(self).pend_val(t) == old(self).pend_val(t)),
            },
    {
        if self.done {
            return None;
        }

        let payload = self.payload;

        if payload.delivery_tag == self.parent.expected {
            self.parent.expected += 1;
            self.next = self.parent.out_of_order.remove(&self.parent.expected);
            return Some((self.to_confirm)(payload.delivery_tag));
        }

        if payload.delivery_tag > self.parent.expected {
            if payload.multiple {
                let ret = (self.to_confirm)(self.parent.expected);
                self.parent.expected += 1;
                return Some(ret);
            } else {
                self.parent.out_of_order.insert(
                    payload.delivery_tag,
                    (self.to_confirm)(payload.delivery_tag),
                );
                self.done = true;
                return None;
            }
        }

        match self.next.take() {
            Some(next) => {
                self.parent.expected += 1;
                self.next = self.parent.out_of_order.remove(&self.parent.expected);
                Some(next)
            }
            None => {
                self.done = true;
                None
            }
        }
    }
}

fn main() {}
}
