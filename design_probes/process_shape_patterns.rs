use vstd::prelude::*;
use std::collections::hash_map::{Entry, HashMap};
verus! {
broadcast use vstd::std_specs::hash::group_hash_axioms;

pub struct Close { pub reply_code: u16, pub reply_text: String }
pub struct CloseOk {}
pub struct QosOk {}
pub struct Flow { pub active: bool }
pub enum AmqpConnection { Close(Close), CloseOk(CloseOk), Blocked(u8) }
pub enum AmqpBasic { QosOk(QosOk), RecoverOk(QosOk), Qos(u8) }
pub enum AmqpChannel { Flow(Flow), Close(Close) }
pub enum AMQPClass { Connection(AmqpConnection), Basic(AmqpBasic), Channel(AmqpChannel) }
pub enum AMQPFrame { ProtocolHeader, Heartbeat(u16), Method(u16, AMQPClass), Body(u16, Vec<u8>) }

pub enum Error { FrameUnexpected, Bogus { channel_id: u16 }, ServerClosedConnection { code: u16, message: String } }
pub type Result<T> = std::result::Result<T, Error>;

pub enum ChannelMessage { Method(AMQPClass) }

// mirror of crossbeam Sender with ghost history
#[verifier::external_body]
#[verifier::reject_recursive_types(T)]
pub struct Sender<T> { _p: core::marker::PhantomData<T> }
impl<T> Sender<T> {
    pub uninterp spec fn sent(&self) -> Seq<T>;
}

#[verifier::external_body]
fn send<T>(tx: &Sender<T>, item: T) -> (r: Result<()>)
{ unimplemented!() }

pub struct ChannelSlot { pub tx: Sender<Result<ChannelMessage>> }
pub struct Inner { pub slots: HashMap<u16, ChannelSlot>, pub sealed: bool }

fn slot_get(inner: &mut Inner, channel_id: u16) -> (r: Result<&ChannelSlot>)
    ensures match r { Ok(s) => old(inner).slots@.contains_key(channel_id) && *s == old(inner).slots@[channel_id], Err(_) => !old(inner).slots@.contains_key(channel_id) },
        *final(inner) == *old(inner),
{
    match inner.slots.get(&channel_id) { Some(s) => Ok(s), None => Err(Error::Bogus { channel_id }) }
}

pub enum ConnectionState { Steady(u8), ServerClosing(Close), ClientException, ClientClosed }

impl ConnectionState {
    fn client_exception(&mut self, inner: &mut Inner, code: u16, text: String) -> Result<()> {
        inner.sealed = true;
        *self = ConnectionState::ClientException;
        Ok(())
    }

    fn process(&mut self, inner: &mut Inner, frame: AMQPFrame) -> Result<()> {
        let ch0_slot = match self {
            ConnectionState::Steady(ch0_slot) => ch0_slot,
            ConnectionState::ClientException => return Ok(()),
            ConnectionState::ServerClosing(_) | ConnectionState::ClientClosed => {
                return Err(Error::FrameUnexpected);
            }
        };

        match frame {
            AMQPFrame::Heartbeat(0) => {}
            AMQPFrame::ProtocolHeader | AMQPFrame::Heartbeat(_) => return Err(Error::FrameUnexpected),
            AMQPFrame::Method(0, AMQPClass::Connection(AmqpConnection::Close(close))) => {
                inner.sealed = true;
                let reply_code = close.reply_code;
                let message = close.reply_text.clone();
                let make_err = || Error::ServerClosedConnection {
                    code: reply_code,
                    message: message.clone(),
                };
                *self = ConnectionState::ServerClosing(close);
            }
            AMQPFrame::Method(0, other) => {
                self.client_exception(inner, 540, String::new())?;
            }
            AMQPFrame::Method(n, method @ AMQPClass::Basic(AmqpBasic::QosOk(_)))
            | AMQPFrame::Method(n, method @ AMQPClass::Basic(AmqpBasic::RecoverOk(_))) => {
                let slot = slot_get(inner, n)?;
                send(&slot.tx, Ok(ChannelMessage::Method(method)))?;
            }
            AMQPFrame::Method(n, method @ AMQPClass::Channel(AmqpChannel::Flow(_))) => {
                self.client_exception(inner, 540, String::new())?;
            }
            AMQPFrame::Method(n, method) => {
                self.client_exception(inner, 530, String::new())?;
            }
            AMQPFrame::Body(0, _) => {
                self.client_exception(inner, 530, String::new())?;
            }
            AMQPFrame::Body(n, body) => {
                let slot = slot_get(inner, n)?;
            }
        }
        Ok(())
    }
}

fn main() {}
}
