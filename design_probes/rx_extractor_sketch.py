"""Throwaway Rust item extractor: lexer-aware brace matching."""
import re, sys

def skip_ws_comments(s, i):
    n = len(s)
    while i < n:
        if s[i].isspace(): i += 1
        elif s.startswith('//', i):
            j = s.find('\n', i); i = n if j < 0 else j + 1
        elif s.startswith('/*', i):
            depth = 1; i += 2
            while i < n and depth:
                if s.startswith('/*', i): depth += 1; i += 2
                elif s.startswith('*/', i): depth -= 1; i += 2
                else: i += 1
        else: break
    return i

def skip_token(s, i):
    """advance over one lexical token starting at i (not whitespace/comment)"""
    n = len(s); c = s[i]
    if c == '"':
        i += 1
        while i < n and s[i] != '"':
            i += 2 if s[i] == '\\' else 1
        return i + 1
    if c == 'r' and re.match(r'r#*"', s[i:]):
        m = re.match(r'r(#*)"', s[i:]); h = m.group(1); end = '"' + h
        j = s.find(end, i + len(m.group(0))); return j + len(end)
    if c == 'b' and i + 1 < n and s[i+1] in '"\'':
        return skip_token(s, i + 1)
    if c == "'":
        # char literal or lifetime
        m = re.match(r"'(\\.[^']*|[^'\\])'", s[i:])
        if m: return i + len(m.group(0))
        m = re.match(r"'[A-Za-z_][A-Za-z0-9_]*", s[i:])
        if m: return i + len(m.group(0))
        return i + 1
    m = re.match(r'[A-Za-z_][A-Za-z0-9_]*|[0-9][A-Za-z0-9_.]*', s[i:])
    if m: return i + len(m.group(0))
    return i + 1

def match_close(s, i):
    """s[i] is an opening bracket; return index just past its matching close"""
    pairs = {'{': '}', '(': ')', '[': ']'}
    stack = [pairs[s[i]]]; i += 1; n = len(s)
    while i < n and stack:
        i = skip_ws_comments(s, i)
        if i >= n: break
        c = s[i]
        if c in pairs: stack.append(pairs[c]); i += 1
        elif c in '})]':
            assert stack[-1] == c, (c, stack, s[max(0,i-80):i+20])
            stack.pop(); i += 1
        else: i = skip_token(s, i)
    return i

def find_item(s, header_re, start=0):
    """find item whose header matches regex (at token boundary); return (begin, body_open, end)"""
    for m in re.finditer(header_re, s[start:]):
        b = start + m.start()
        # make sure not inside comment/string: cheap check - line doesn't start with //
        ls = s.rfind('\n', 0, b) + 1
        if s[ls:b].lstrip().startswith('//'): continue
        i = start + m.end()
        # scan to '{' or ';' at depth 0
        while True:
            i = skip_ws_comments(s, i)
            c = s[i]
            if c == '{': return b, i, match_close(s, i)
            if c == ';': return b, i, i + 1
            if c in '([': i = match_close(s, i)
            else: i = skip_token(s, i)
    return None

def attrs_start(s, b):
    """extend begin backwards over preceding attributes / doc comments"""
    while True:
        ls = s.rfind('\n', 0, b - 1) + 1 if b > 0 else 0
        line = s[ls:b].strip() if s[ls:b].strip() else s[ls:s.find('\n', ls)].strip()
        prev_end = s.rfind('\n', 0, b)
        if prev_end < 0: return b
        pls = s.rfind('\n', 0, prev_end) + 1
        pl = s[pls:prev_end].strip()
        if pl.startswith('#[') or pl.startswith('///'):
            b = pls
        else: return b
