use vstd::prelude::*;
verus! {
global size_of usize == 8;
pub enum Error { X }
pub type Result<T> = std::result::Result<T, Error>;
#[verifier::external_body]
pub struct AMQPProperties { _p: u8 }

pub enum Emission { Header { class_id: u16, len: usize }, Body(Seq<u8>) }

// boundary: IoLoopHandle with a ghost log (its methods take &mut self); the real bodies are verified in U-outbuf
#[verifier::external_body]
pub struct IoLoopHandle { _p: u8 }
impl IoLoopHandle {
    pub uninterp spec fn log(&self) -> Seq<Emission>;
    pub uninterp spec fn id(&self) -> u16;
    #[verifier::external_body]
    pub fn channel_id(&self) -> (r: u16) ensures r == self.id() { unimplemented!() }
    #[verifier::external_body]
    pub fn send_content_header(&mut self, class_id: u16, len: usize, properties: &AMQPProperties) -> (r: Result<()>)
        ensures final(self).id() == old(self).id(),
            r is Ok ==> final(self).log() == old(self).log().push(Emission::Header { class_id, len }),
            r is Err ==> final(self).log() == old(self).log(),
    { unimplemented!() }
    #[verifier::external_body]
    pub fn send_content_body(&mut self, content: &[u8]) -> (r: Result<()>)
        ensures final(self).id() == old(self).id(),
            r is Ok ==> final(self).log() == old(self).log().push(Emission::Body(content@)),
            r is Err ==> final(self).log() == old(self).log(),
    { unimplemented!() }
}

pub struct ChannelHandle {
    pub handle: IoLoopHandle,
    pub frame_max: usize,
}

// ---- spec from the property: the exact emission sequence for a body ----
pub open spec fn chunks(c: Seq<u8>, f: int) -> Seq<Emission>
    decreases c.len()
{
    if f <= 0 || c.len() == 0 { Seq::empty() }
    else if c.len() <= f { seq![Emission::Body(c)] }
    else { seq![Emission::Body(c.subrange(0, f))] + chunks(c.subrange(f, c.len() as int), f) }
}

impl ChannelHandle {
    pub fn channel_id(&self) -> u16 { self.handle.channel_id() }

    pub fn send_content(
        &mut self,
        mut content: &[u8],
        class_id: u16,
        properties: &AMQPProperties,
    ) -> (r: Result<()>)
        requires old(self).frame_max >= 1,
        ensures final(self).frame_max == old(self).frame_max,
            r is Ok ==> final(self).handle.log() =~= old(self).handle.log()
                + seq![Emission::Header { class_id, len: content@.len() as usize }] + chunks(content@, old(self).frame_max as int),
    {
        self.handle
            .send_content_header(class_id, content.len(), properties)?;

        let ghost whole = content@;
        while content.len() > self.frame_max
            invariant
                self.frame_max == old(self).frame_max, self.frame_max >= 1,
                self.handle.log() + chunks(content@, self.frame_max as int)
                    =~= old(self).handle.log() + seq![Emission::Header { class_id, len: whole.len() as usize }] + chunks(whole, self.frame_max as int),
            decreases content@.len(),
        {
            self.handle.send_content_body(&content[..self.frame_max])?;
            content = &content[self.frame_max..];
        }
        if !content.is_empty() {
            self.handle.send_content_body(content)?;
        }
        Ok(())
    }
}
fn main() {}
}
