#![feature(allocator_api)]
use vstd::prelude::*;
use std::ops::{Index, RangeFrom};
verus! {
#[verifier::external_body]
pub fn vec_remove_range<T>(v: &mut Vec<T>, a: usize, b: usize)
    requires a <= b <= old(v)@.len(),
    ensures final(v)@ == old(v)@.subrange(0, a as int) + old(v)@.subrange(b as int, old(v)@.len() as int),
{ v.drain(a..b); }

pub struct OutputBuffer(pub Vec<u8>);

impl OutputBuffer {
    pub fn empty() -> OutputBuffer {
        OutputBuffer(Vec::new())
    }

    pub fn drain_into_new_buf(&mut self) -> (r: OutputBuffer)
        ensures r.0@ == old(self).0@, final(self).0@.len() == 0,
    {
        let mut buf = OutputBuffer(Vec::with_capacity(self.len()));
        buf.0.append(&mut self.0);
        buf
    }

    #[inline]
    pub fn is_empty(&self) -> bool {
        self.0.is_empty()
    }

    #[inline]
    pub fn len(&self) -> usize {
        self.0.len()
    }

    #[inline]
    pub fn clear(&mut self) {
        self.0.clear()
    }

    #[inline]
    pub fn drain_written(&mut self, n: usize)
        requires n <= old(self).0@.len(),
        ensures final(self).0@ == old(self).0@.subrange(n as int, old(self).0@.len() as int),
    {
        vec_remove_range(&mut self.0, 0, n);
    }

    #[inline]
    pub fn append(&mut self, mut other: OutputBuffer)
        ensures final(self).0@ == old(self).0@ + other.0@,
    {
        self.0.append(&mut other.0)
    }
}

impl Index<RangeFrom<usize>> for OutputBuffer {
    type Output = [u8];

    #[inline]
    fn index(&self, index: RangeFrom<usize>) -> &[u8] {
        &self.0[index]
    }
}

impl vstd::std_specs::core::IndexSpecImpl<RangeFrom<usize>> for OutputBuffer {
    open spec fn index_req(&self, index: &RangeFrom<usize>) -> bool { index.start <= self.0@.len() }
}
fn main() {}
}
