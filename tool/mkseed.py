#!/usr/bin/env python3
# mkseed.py <round-letter> <PROP>...: creates one scratch git worktree of /repo's HEAD per property under /tmp/seed/<PROP><round> and writes the
# prompt file /tmp/seed/<PROP><round>.prompt for an independent sub-agent. The prompt contains the property text and nothing else from /verif.
# (tool/seedcheck.sh <worktree> <seed-id> <PROP..> then confirms the agent's result and records it under seeded/<id>/.)
import os
os.makedirs('/tmp/seed', exist_ok=True)
import json,subprocess
props={json.loads(l)['id']:json.loads(l) for l in open('/verif/properties.jsonl')}
T='''You are helping to test a verification setup for the Rust crate amiquip (a RabbitMQ / AMQP 0-9-1 client). Your job is to play the part of a developer who, while making a plausible change to the library, accidentally breaks ONE stated property in a way that the existing tests do not notice.

Your private scratch copy of the repository is the git worktree {wt} . Work ONLY inside it. Never read, write or cd into /repo or /verif. Never use `git stash`, `git worktree`, `git checkout <branch>` or anything else that touches shared git state: use `git diff > file`, `git apply`, `git apply -R`, `git checkout -- <path>` on your own files only. There is no network: always pass --offline to cargo and set CARGO_TARGET_DIR={wt}/target . Do not run `pkill`/`killall` (other people's test processes run on this machine).

The property (this is all you are told about what is being checked):

{prop}

What to produce:
1. A change to the LIBRARY source (src/**, not tests, not Cargo.toml) of at most ~40 changed lines that
   - compiles without new warnings that would look suspicious in review,
   - keeps the existing suite green: `cargo test --offline` (40 unit tests + 10 doctests) passes unedited (two wall-clock based tests, heartbeats::tests::fire_after_*, fail now and then under machine load whatever you do: re-run if only they fail),
   - looks like something a developer could plausibly do (a refactoring, an optimisation, a tidy-up, a small feature, a "simplification", a robustness tweak) - NOT an obviously malicious edit, not a commented-out line, not a change of a constant that any reviewer would question without a plausible rationale in the diff,
   - breaks the property above, but ONLY under a specific condition (particular input values, a particular order of events, a particular state, a particular configuration): for everything else the behaviour must stay exactly as before. Prefer changes whose wrong behaviour needs two or three things to coincide.
   This is a late round: the obvious and the second-order breakages of this property have been tried already (wrong comparison, swapped fields, dropped branch, reordered steps in the main function, cleared buffers, early returns, off-by-eight frame sizes, ...). Look for a less travelled code path that the property also depends on: the client-side handle layer (io_loop_handle.rs, channel_handle.rs), the public wrappers (channel.rs, queue.rs, exchange.rs, consumer.rs, delivery.rs, get.rs, connection.rs), constructors and conversions between layers, the hand-over between the caller's thread and the I/O thread, error paths and `?` propagation, drop / cleanup code, rarely taken branches, interactions between two features (confirms + returns, heartbeats + backpressure, close + publish, ...). Changes that reshape code (extract a helper, merge two branches, change a data structure, move a check between caller and callee, cache a value) and in-place changes inside an existing function (a condition that differs only in a corner, a value computed slightly differently, an update moved across a call, a state transition taken a step early or late) are equally welcome; one-token edits that any reviewer would spot are not.
2. A demonstration: an in-crate test module (a new file under src/, wired with a `#[cfg(test)] mod ...;` line in an existing file) that drives the REAL code and
   - passes on the unmodified library,
   - fails on the library with your change,
   and that contains at least one control test which passes either way. Do not use real network servers; loopback sockets, in-memory streams implementing the crate's IoStream trait (mio::Registration works for the Evented part), and driving the state machines directly are all fine. Keep wall-clock dependence out of it if you can; make sure a failing demonstration FAILS rather than hangs (use timeouts / watchdogs; remember that dropping a Channel, Consumer or Connection talks to the server and blocks if nobody answers - std::mem::forget what you do not want to close).
3. Verify both directions yourself (cargo test with and without the change).

Deliverables, in {wt}/OUT/ :
 - patch.diff : ONLY the library change, produced with `git diff -- <the library files you changed>` from the worktree root, so that `git apply OUT/patch.diff` applies it to the unmodified tree. It must not contain the demo file or its wiring.
 - demo.rs    : a copy of the demonstration module.
 - README.md  : what the change is, the plausible rationale a commit message would give, exactly what has to coincide for the property to break, and what you observed in both directions.
Leave the worktree with the library change REVERTED and the demonstration (file + wiring line) in place, uncommitted. Do not commit anything.

When done, answer with the path of OUT/ and a two-line summary of the change.'''
import sys
round_=sys.argv[1]
ids=sys.argv[2:]
for pid in ids:
    wt='/tmp/seed/%s%s'%(pid,round_)
    r=subprocess.run(['git','-C','/repo','worktree','add','--detach',wt,'HEAD'],capture_output=True,text=True)
    p=props[pid]
    txt=json.dumps({k:p[k] for k in ('id','title','statement','quantifier','why_tests_cant','anchors') if k in p},indent=1)
    open('/tmp/seed/%s%s.prompt'%(pid,round_),'w').write(T.format(wt=wt,prop=txt))
print(len(subprocess.run(['git','-C','/repo','worktree','list'],capture_output=True,text=True).stdout.split('\n')))
