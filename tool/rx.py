"""rx.py - Rust-aware lexer, item extractor and mechanical rewrites (DESIGN.md 2.2/2.3).

Nothing here understands Rust semantics; everything is token/bracket level.
"""
import re

IDENT_RE = re.compile(r'[A-Za-z_][A-Za-z0-9_]*')
NUM_RE = re.compile(r'[0-9][A-Za-z0-9_]*(\.[0-9][A-Za-z0-9_]*)?')
RAWSTR_RE = re.compile(r'b?r(#*)"')
CHAR_RE = re.compile(r"'(\\x[0-9a-fA-F]{2}|\\u\{[0-9a-fA-F_]+\}|\\.|[^'\\])'")
LIFETIME_RE = re.compile(r"'[A-Za-z_][A-Za-z0-9_]*")


class LexError(Exception):
    pass


def tokens(s, start=0, end=None):
    """yield (kind, b, e) for s[start:end]; kinds: ws comment doc str char lifetime ident num punct"""
    n = len(s) if end is None else end
    i = start
    while i < n:
        c = s[i]
        if c.isspace():
            j = i + 1
            while j < n and s[j].isspace():
                j += 1
            yield ('ws', i, j)
            i = j
        elif s.startswith('//', i):
            j = s.find('\n', i)
            j = n if (j < 0 or j > n) else j
            kind = 'doc' if (s.startswith('///', i) and not s.startswith('////', i)) or s.startswith('//!', i) else 'comment'
            yield (kind, i, j)
            i = j
        elif s.startswith('/*', i):
            depth = 1
            j = i + 2
            while j < n and depth:
                if s.startswith('/*', j):
                    depth += 1
                    j += 2
                elif s.startswith('*/', j):
                    depth -= 1
                    j += 2
                else:
                    j += 1
            yield ('comment', i, j)
            i = j
        elif c == '"' or (c == 'b' and s.startswith('b"', i)):
            j = i + (2 if c == 'b' else 1)
            while j < n and s[j] != '"':
                j += 2 if s[j] == '\\' else 1
            yield ('str', i, j + 1)
            i = j + 1
        elif (c == 'r' or c == 'b') and RAWSTR_RE.match(s, i):
            m = RAWSTR_RE.match(s, i)
            endq = '"' + m.group(1)
            j = s.find(endq, m.end())
            if j < 0:
                raise LexError('unterminated raw string at %d' % i)
            yield ('str', i, j + len(endq))
            i = j + len(endq)
        elif c == "'" or (c == 'b' and s.startswith("b'", i)):
            k = i + 1 if c == 'b' else i
            m = CHAR_RE.match(s, k)
            if m:
                yield ('char', i, m.end())
                i = m.end()
            else:
                m = LIFETIME_RE.match(s, k)
                if m:
                    yield ('lifetime', i, m.end())
                    i = m.end()
                else:
                    yield ('punct', i, i + 1)
                    i += 1
        else:
            m = IDENT_RE.match(s, i)
            if m:
                yield ('ident', i, m.end())
                i = m.end()
                continue
            m = NUM_RE.match(s, i)
            if m:
                yield ('num', i, m.end())
                i = m.end()
                continue
            yield ('punct', i, i + 1)
            i += 1


def sig_tokens(s, start=0, end=None):
    """tokens without ws/comments/docs"""
    for t in tokens(s, start, end):
        if t[0] not in ('ws', 'comment', 'doc'):
            yield t


OPEN = {'{': '}', '(': ')', '[': ']'}
CLOSE = set('})]')


def match_close(s, i):
    """s[i] is an opening bracket; return index just past the matching close"""
    assert s[i] in OPEN, (i, s[i:i + 20])
    stack = []
    for kind, b, e in tokens(s, i):
        if kind != 'punct':
            continue
        c = s[b]
        if c in OPEN:
            stack.append(OPEN[c])
        elif c in CLOSE:
            if not stack or stack[-1] != c:
                raise LexError('bracket mismatch at %d: %r' % (b, s[max(0, b - 60):b + 10]))
            stack.pop()
            if not stack:
                return e
    raise LexError('unclosed bracket at %d' % i)


QUALS = {'pub', 'unsafe', 'async', 'extern', 'default', 'const'}
ITEM_KW = {'fn', 'struct', 'enum', 'union', 'trait', 'impl', 'const', 'static', 'type', 'mod', 'use', 'macro_rules'}


class Item:
    __slots__ = ('kind', 'name', 'begin', 'sig_begin', 'body_open', 'end', 'attrs', 'src', 'vis')

    def __init__(self, **kw):
        for k, v in kw.items():
            setattr(self, k, v)

    def text(self):
        return self.src[self.sig_begin:self.end]

    def header(self):
        return self.src[self.sig_begin:self.body_open if self.body_open is not None else self.end]

    def __repr__(self):
        return 'Item(%s %s @%d)' % (self.kind, self.name, self.begin)


def norm_ws(t):
    return re.sub(r'\s+', ' ', t).strip()


def parse_items(s, start=0, end=None, limit=None):
    """parse the items of a container s[start:end] (file, impl body, trait body, mod body)"""
    n = len(s) if end is None else end
    items = []
    i = start
    while True:
        # leading trivia
        attrs = []
        begin = None
        while i < n:
            if s[i].isspace():
                i += 1
            elif s.startswith('//', i):
                isdoc = (s.startswith('///', i) and not s.startswith('////', i))
                if isdoc and begin is None:
                    begin = i
                j = s.find('\n', i)
                i = n if j < 0 else j + 1
            elif s.startswith('/*', i):
                for kind, b, e in tokens(s, i):
                    i = e
                    break
            elif s.startswith('#[', i) or s.startswith('#![', i):
                if begin is None:
                    begin = i
                j = s.index('[', i)
                e = match_close(s, j)
                attrs.append(s[i:e])
                i = e
            else:
                break
        if i >= n:
            break
        sig_begin = i
        if begin is None:
            begin = i
        # qualifiers
        kind = None
        name = None
        vis = ''
        pos = i
        prev_const = False
        while True:
            t = next(sig_tokens(s, pos, n), None)
            if t is None:
                break
            tk, b, e = t
            w = s[b:e]
            if tk == 'ident' and w == 'pub':
                vis = 'pub'
                pos = e
                t2 = next(sig_tokens(s, pos, n), None)
                if t2 and s[t2[1]] == '(':
                    pos = match_close(s, t2[1])
                    vis = s[b:pos]
                continue
            if tk == 'ident' and w in ('unsafe', 'async', 'extern', 'default'):
                pos = e
                continue
            if tk == 'str':
                pos = e
                continue
            if tk == 'ident' and w == 'const':
                t2 = next(sig_tokens(s, e, n), None)
                w2 = s[t2[1]:t2[2]] if t2 else ''
                if w2 in ('fn', 'unsafe', 'async', 'extern'):
                    pos = e
                    continue
                kind = 'const'
                pos = e
                break
            if tk == 'ident' and w in ITEM_KW:
                kind = w
                pos = e
                break
            if tk == 'ident':
                kind = 'macro'
                name = w
                pos = e
                break
            raise LexError('cannot classify item at %d: %r' % (b, s[b:b + 60]))
        if kind is None:
            break
        # name
        if kind in ('fn', 'struct', 'enum', 'union', 'trait', 'static', 'type', 'mod', 'const'):
            for tk, b, e in sig_tokens(s, pos, n):
                if tk == 'ident' and s[b:e] not in ('mut', 'unsafe'):
                    name = s[b:e]
                    break
        elif kind == 'macro_rules':
            for tk, b, e in sig_tokens(s, pos, n):
                if tk == 'ident':
                    name = s[b:e]
                    break
        # extent
        body_open = None
        j = pos
        if kind in ('const', 'static', 'type', 'use'):
            while True:
                tk, b, e = next(sig_tokens(s, j, n))
                c = s[b]
                if tk == 'punct' and c in OPEN:
                    j = match_close(s, b)
                elif tk == 'punct' and c == ';':
                    endp = e
                    break
                else:
                    j = e
        elif kind in ('macro', 'macro_rules'):
            seen_bang = False
            while True:
                tk, b, e = next(sig_tokens(s, j, n))
                c = s[b]
                if tk == 'punct' and c in OPEN:
                    endp = match_close(s, b)
                    body_open = b
                    if c != '{':
                        k = endp
                        while k < n and s[k].isspace():
                            k += 1
                        if k < n and s[k] == ';':
                            endp = k + 1
                    break
                j = e
        else:
            while True:
                tk, b, e = next(sig_tokens(s, j, n))
                c = s[b]
                if tk == 'punct' and c == '{':
                    body_open = b
                    endp = match_close(s, b)
                    break
                elif tk == 'punct' and c in '([':
                    j = match_close(s, b)
                elif tk == 'punct' and c == ';':
                    endp = e
                    break
                else:
                    j = e
        if kind == 'impl':
            name = norm_ws(s[sig_begin:body_open])
        items.append(Item(kind=kind, name=name, begin=begin, sig_begin=sig_begin, body_open=body_open,
                          end=endp, attrs=attrs, src=s, vis=vis))
        i = endp
        if limit is not None and len(items) >= limit:
            break
    return items


def sub_items(item):
    assert item.body_open is not None
    return parse_items(item.src, item.body_open + 1, item.end - 1)


def line_of(s, pos):
    return s.count('\n', 0, pos) + 1


# --------------------------------------------------------------------------------------
# rewrites: each takes text, returns (new_text, count)

def apply_edits(s, edits):
    edits = sorted(edits, key=lambda x: x[0])
    out = []
    last = 0
    for b, e, r in edits:
        if b < last:
            continue  # overlapping (nested macro) - outer already replaced
        out.append(s[last:b])
        out.append(r)
        d = s[b:e].count('\n') - r.count('\n')
        if d > 0:
            out.append('\n' * d)   # keep line numbering of the extract stable
        last = e
    out.append(s[last:])
    return ''.join(out)


def _macro_calls(s, names):
    """yield (name, b, group_open, e) for each `name ! (...)` invocation"""
    toks = list(sig_tokens(s))
    for k, (tk, b, e) in enumerate(toks):
        if tk == 'ident' and s[b:e] in names and k + 2 < len(toks):
            t1, t2 = toks[k + 1], toks[k + 2]
            if s[t1[1]:t1[2]] == '!' and s[t2[1]] in OPEN:
                # make sure it is not a path segment like foo::trace
                if k > 0 and s[toks[k - 1][1]:toks[k - 1][2]] == ':':
                    pass
                yield s[b:e], b, t2[1], match_close(s, t2[1])


LOG_MACROS = {'trace', 'debug', 'info', 'warn', 'error'}


def r1_drop_log(s):
    edits = [(b, e, '()') for _, b, _, e in _macro_calls(s, LOG_MACROS)]
    return apply_edits(s, edits), len(edits)


def r2_format(s):
    edits = [(b, e, 'fmt_stub()') for _, b, _, e in _macro_calls(s, {'format'})]
    return apply_edits(s, edits), len(edits)


def split_args(s, b, e):
    """split s[b:e] (inside of a bracket group) at depth-0 commas"""
    args = []
    depth_end = b
    cur = b
    i = b
    toks = list(sig_tokens(s, b, e))
    k = 0
    while k < len(toks):
        tk, tb, te = toks[k]
        c = s[tb]
        if tk == 'punct' and c in OPEN:
            ce = match_close(s, tb)
            while k < len(toks) and toks[k][1] < ce:
                k += 1
            continue
        if tk == 'punct' and c == ',':
            args.append(s[cur:tb].strip())
            cur = te
        k += 1
    last = s[cur:e].strip()
    if last:
        args.append(last)
    return args


def r10_assert_eq(s, guard=False):
    edits = []
    for name, b, g, e in _macro_calls(s, {'assert_eq', 'assert_ne', 'debug_assert_eq', 'debug_assert_ne'}):
        args = split_args(s, g + 1, e - 1)
        op = '==' if name.endswith('eq') else '!='
        edits.append((b, e, 'assert!((%s) %s (%s))' % (args[0], op, args[1])))
    s2 = apply_edits(s, edits)
    cnt = len(edits)
    # panic messages are dropped: assert!(c, "msg", ..) -> assert!(c); unreachable!("msg") -> unreachable!()
    edits = []
    for name, b, g, e in _macro_calls(s2, {'assert', 'debug_assert'}):
        args = split_args(s2, g + 1, e - 1)
        if len(args) > 1:
            edits.append((b, e, '%s!(%s)' % (name, args[0])))
    for name, b, g, e in _macro_calls(s2, {'unreachable', 'panic', 'unimplemented', 'todo'}):
        if s2[g + 1:e - 1].strip():
            edits.append((b, e, '%s!()' % ('unreachable' if name == 'unreachable' else 'panic')))
    s2 = apply_edits(s2, edits)
    cnt += len(edits)
    if guard:
        edits = []
        for name, b, g, e in _macro_calls(s2, {'assert'}):
            args = split_args(s2, g + 1, e - 1)
            edits.append((b, e, 'if !(%s) { diverge() }' % args[0]))
        s2 = apply_edits(s2, edits)
        cnt += len(edits)
    return s2, cnt


def r9_closure_wildcard(s):
    toks = list(sig_tokens(s))
    edits = []
    for k in range(1, len(toks) - 1):
        tk, b, e = toks[k]
        if tk == 'ident' and s[b:e] == '_':
            p = s[toks[k - 1][1]:toks[k - 1][2]]
            nx = s[toks[k + 1][1]:toks[k + 1][2]]
            if p == '|' and nx == '|':
                edits.append((b, e, '_x'))
    return apply_edits(s, edits), len(edits)


def r4_visibility_item(text, kind, in_trait_impl=False):
    """make the item itself pub (text starts at the item's first token, after attrs)"""
    m = re.match(r'pub\s*\([^)]*\)\s*', text)
    if m:
        return 'pub ' + text[m.end():]
    if re.match(r'pub\b', text):
        return text
    if in_trait_impl:
        return text
    return 'pub ' + text


def r4_struct_fields(text):
    """text = whole struct item; add pub to every named field / tuple field"""
    items = parse_items(text)
    it = items[0]
    if it.body_open is None:
        # tuple struct or unit struct: `struct X(A, B);`
        m = re.search(r'\(', text)
        if not m:
            return text
        # find the paren group following the name (skip generics)
        p = None
        for tk, b, e in sig_tokens(text):
            if text[b] == '(' and tk == 'punct':
                p = b
                break
        if p is None:
            return text
        pe = match_close(text, p)
        fields = _split_fields(text, p + 1, pe - 1)
        edits = []
        for fb, fe in fields:
            edits.append(_pub_field_edit(text, fb, fe))
        return apply_edits(text, [x for x in edits if x])
    fields = _split_fields(text, it.body_open + 1, it.end - 1)
    edits = []
    for fb, fe in fields:
        edits.append(_pub_field_edit(text, fb, fe))
    return apply_edits(text, [x for x in edits if x])


def _split_fields(s, b, e):
    """ranges of comma separated entries at depth 0 (angle brackets tracked loosely)"""
    out = []
    cur = b
    toks = list(sig_tokens(s, b, e))
    k = 0
    angle = 0
    while k < len(toks):
        tk, tb, te = toks[k]
        c = s[tb]
        if tk == 'punct' and c in OPEN:
            ce = match_close(s, tb)
            while k < len(toks) and toks[k][1] < ce:
                k += 1
            continue
        if tk == 'punct' and c == '<':
            angle += 1
        elif tk == 'punct' and c == '>' and not (tb > 0 and s[tb - 1] == '-'):
            angle = max(0, angle - 1)
        elif tk == 'punct' and c == ',' and angle == 0:
            out.append((cur, tb))
            cur = te
        k += 1
    if s[cur:e].strip():
        out.append((cur, e))
    return out


def _pub_field_edit(s, fb, fe):
    # skip attrs/docs/ws at the start of the field
    i = fb
    while i < fe:
        if s[i].isspace():
            i += 1
        elif s.startswith('//', i):
            j = s.find('\n', i)
            i = fe if j < 0 else j + 1
        elif s.startswith('/*', i):
            for kind, b, e in tokens(s, i):
                i = e
                break
        elif s.startswith('#[', i):
            i = match_close(s, s.index('[', i))
        else:
            break
    if i >= fe:
        return None
    m = re.match(r'pub\s*\([^)]*\)\s*', s[i:fe])
    if m:
        return (i, i + m.end(), 'pub ')
    if re.match(r'pub\b', s[i:fe]):
        return None
    return (i, i, 'pub ')


def find_loops(body):
    """body = function body text incl. braces. returns list of (kw, kw_pos, body_open, body_end) in source order"""
    toks = list(sig_tokens(body))
    loops = []
    for k, (tk, b, e) in enumerate(toks):
        if tk == 'ident' and body[b:e] in ('while', 'loop', 'for'):
            w = body[b:e]
            if w == 'for':
                # exclude `for<'a>` HRTB and `impl X for Y`
                nx = body[toks[k + 1][1]] if k + 1 < len(toks) else ''
                if nx == '<':
                    continue
            # find body `{` at depth 0
            j = e
            bo = None
            for tk2, b2, e2 in sig_tokens(body, j):
                pass
            i = e
            while True:
                t = next(sig_tokens(body, i), None)
                if t is None:
                    break
                tk2, b2, e2 = t
                c = body[b2]
                if tk2 == 'punct' and c == '{':
                    bo = b2
                    break
                if tk2 == 'punct' and c in '([':
                    i = match_close(body, b2)
                else:
                    i = e2
            if bo is not None:
                loops.append((w, b, bo, match_close(body, bo)))
    return loops


def find_returns(body):
    out = []
    for tk, b, e in sig_tokens(body):
        if tk == 'ident' and body[b:e] == 'return':
            out.append(b)
    return out


def find_keyword(body, word):
    """offsets of a keyword token (e.g. `continue`) in code, comments and strings excluded"""
    return [b for tk, b, e in sig_tokens(body) if tk == 'ident' and body[b:e] == word]


def fn_signature_parts(text):
    """text = fn item text from `fn`/`pub fn` ... to end. returns (sig_end=body_open index, ret_span or None, where_pos or None)"""
    it = parse_items(text, limit=1)[0]
    bo = it.body_open
    # locate `->` at depth 0 after the parameter list
    toks = list(sig_tokens(text, 0, bo if bo is not None else it.end))
    k = 0
    # find the parameter list: first '(' after the fn name, skipping generics <...>
    angle = 0
    par_end = None
    seen_fn = False
    i = 0
    while i < len(toks):
        tk, b, e = toks[i]
        w = text[b:e]
        if not seen_fn:
            if tk == 'ident' and w == 'fn':
                seen_fn = True
            i += 1
            continue
        if tk == 'punct' and w == '<':
            angle += 1
        elif tk == 'punct' and w == '>' and text[b - 1] != '-':
            angle -= 1
        elif tk == 'punct' and w == '(' and angle == 0:
            par_end = match_close(text, b)
            break
        elif tk == 'punct' and w in '([':
            ce = match_close(text, b)
            while i < len(toks) and toks[i][1] < ce:
                i += 1
            continue
        i += 1
    assert par_end is not None, text[:200]
    rest_toks = [t for t in toks if t[1] >= par_end]
    ret = None
    where_pos = None
    i = 0
    arrow_end = None
    while i < len(rest_toks):
        tk, b, e = rest_toks[i]
        w = text[b:e]
        if tk == 'punct' and w == '-' and text[b:b + 2] == '->' and arrow_end is None and where_pos is None:
            arrow_end = b + 2
        elif tk == 'ident' and w == 'where' and where_pos is None:
            where_pos = b
        elif tk == 'punct' and w in '([':
            ce = match_close(text, b)
            while i < len(rest_toks) and rest_toks[i][1] < ce:
                i += 1
            continue
        i += 1
    stop = where_pos if where_pos is not None else (bo if bo is not None else it.end - 1)
    if arrow_end is not None:
        ret = (arrow_end, stop)
    return bo, ret, where_pos


def r7_desugar_for(text, expr_lit, repl_expr):
    """`for PAT in <expr_lit> BODY` -> `{ let mut verif_it = <repl_expr>; loop { match verif_it.next() { Some(PAT) => BODY, None => break, } } }`
    (Rust reference desugaring of `for`, with the iterator constructor replaced by a prelude mirror)."""
    cnt = 0
    while True:
        found = None
        for kw, kpos, bo, be in find_loops(text):
            if kw != 'for':
                continue
            hdr = text[kpos:bo]
            m = re.match(r'for\s+(.*?)\s+in\s+(.*?)\s*$', hdr, re.S)
            if not m:
                continue
            if norm_ws(m.group(2)) == norm_ws(expr_lit):
                found = (kpos, bo, be, m.group(1))
                break
        if not found:
            break
        kpos, bo, be, pat = found
        hdr = text[kpos:bo]
        new_hdr = '{ let mut verif_it = %s; loop { match verif_it.next() { Some(%s) => ' % (repl_expr, norm_ws(pat))
        new_hdr += '\n' * hdr.count('\n')
        text = text[:kpos] + new_hdr + text[bo:be] + ', None => break, } } }' + text[be:]
        cnt += 1
    return text, cnt


def r18_str_match(text):
    """R18: `match SCRUT { "a" => A, "b" | "c" => B, name => C, _ => D }` (arms whose patterns are string literals; Verus gives literal
    patterns on `str` no meaning) becomes the if-chain that defines it:
        { let verif_sK = SCRUT; if verif_sK == "a" { A } else if verif_sK == "b" || verif_sK == "c" { B } else { let name = verif_sK; C } }
    Only matches in which at least one arm is a string literal and every arm is a string literal, an alternation of them, a plain
    identifier or `_` are rewritten (the catch-all has to be the last arm). Returns (new text, list of the literals used, count)."""
    lits = []
    count = 0
    while True:
        toks = [(tk, b, e) for tk, b, e in sig_tokens(text)]
        done = True
        for idx, (tk, b, e) in enumerate(toks):
            if tk != 'ident' or text[b:e] != 'match':
                continue
            # scrutinee: up to the first `{` at depth 0
            depth = 0
            open_ = None
            for tk2, b2, e2 in toks[idx + 1:]:
                w = text[b2:e2]
                if tk2 == 'punct' and w in '([':
                    depth += 1
                elif tk2 == 'punct' and w in ')]':
                    depth -= 1
                elif tk2 == 'punct' and w == '{' and depth == 0:
                    open_ = b2
                    break
            if open_ is None:
                continue
            close = match_close(text, open_)  # index just past `}`
            arms = _split_match_arms(text, open_ + 1, close - 1)
            if arms is None or not any(a['lits'] for a in arms):
                continue
            ok = all(a['lits'] or a['bind'] is not None for a in arms) and all(a['lits'] for a in arms[:-1]) and (arms[-1]['bind'] is not None)
            if not ok:
                continue
            k = count
            var = 'verif_s%d' % k
            scrut = text[e:open_].strip()
            parts = []
            for a in arms:
                body = a['body'].strip()
                if not (body.startswith('{') and match_close(body, 0) == len(body)):
                    body = '{ ' + body + ' }'
                if a['lits']:
                    cond = ' || '.join('%s == %s' % (var, l) for l in a['lits'])
                    parts.append('if %s %s' % (cond, body))
                    for l in a['lits']:
                        if l not in lits:
                            lits.append(l)
                else:
                    if a['bind'] != '_':
                        body = '{ let %s = %s; %s }' % (a['bind'], var, body)
                    parts.append(body)
            repl = '{ let %s = %s; %s }' % (var, scrut, ' else '.join(parts))
            text = text[:b] + repl + text[close:]
            count += 1
            done = False
            break
        if done:
            return text, lits, count


def _split_match_arms(s, b, e):
    """arms of a match body s[b:e]: list of dict(lits=[..] or [], bind=name/'_'/None, body=text); None if an arm has another shape (guards,
    structured patterns)"""
    toks = [(tk, tb, te) for tk, tb, te in sig_tokens(s, b, e)]
    arms = []
    i = 0
    n = len(toks)
    while i < n:
        # pattern up to `=>`
        pat = []
        while i < n and not (toks[i][0] == 'punct' and s[toks[i][1]:toks[i][2]] == '=' and i + 1 < n and s[toks[i + 1][1]:toks[i + 1][2]] == '>' and toks[i + 1][1] == toks[i][2]):
            pat.append(toks[i])
            i += 1
        if i >= n:
            return None if pat else arms
        i += 2  # skip `=>`
        lits = []
        bind = None
        words = [(tk, s[tb:te]) for tk, tb, te in pat]
        if all(tk == 'str' or (tk == 'punct' and w == '|') for tk, w in words) and any(tk == 'str' for tk, w in words):
            lits = [w for tk, w in words if tk == 'str']
        elif len(words) == 1 and words[0][0] == 'ident':
            bind = words[0][1]
        else:
            return None
        if i >= n:
            return None
        # body: a block, or an expression up to the next `,` at depth 0
        tk, tb, te = toks[i]
        if tk == 'punct' and s[tb:te] == '{':
            close = match_close(s, tb)
            body = s[tb:close]
            while i < n and toks[i][1] < close:
                i += 1
            if i < n and toks[i][0] == 'punct' and s[toks[i][1]:toks[i][2]] == ',':
                i += 1
        else:
            depth = 0
            start = tb
            end_ = e
            while i < n:
                tk, tb, te = toks[i]
                w = s[tb:te]
                if tk == 'punct' and w in '([{':
                    depth += 1
                elif tk == 'punct' and w in ')]}':
                    depth -= 1
                elif tk == 'punct' and w == ',' and depth == 0:
                    end_ = tb
                    i += 1
                    break
                i += 1
            else:
                end_ = e
            body = s[start:end_]
        arms.append({'lits': lits, 'bind': bind, 'body': body})
    return arms


# --------------------------------------------------------------------------------------
# R19: a local closure `let [mut] NAME = |p1: T1, ..| { BODY };` that captures `&mut` state (outside Verus) and is only ever *called*
# (`NAME(a1, ..)`) is beta-reduced: the binding is dropped and each call becomes `{ let p1: T1 = a1; ..; { BODY } }`.
# Refused (returns None -> unsupported construct) when the reduction could change the meaning: the body contains `return` / `?`
# (they would leave the enclosing function instead of the closure), a parameter name occurs in an argument expression, a free name of
# the body is re-bound by a `let` between the definition and a call, NAME is used other than in a call, or a parameter lacks a type.
def r19_inline_closures(s, only=None):
    toks = list(sig_tokens(s))
    txt = lambda k: s[toks[k][1]:toks[k][2]]
    defs = []
    k = 0
    while k < len(toks) - 5:
        if toks[k][0] == 'ident' and txt(k) == 'let':
            j = k + 1
            if txt(j) == 'mut':
                j += 1
            if toks[j][0] == 'ident' and txt(j + 1) == '=' and txt(j + 2) == '|':
                name = txt(j)
                # parameter list up to the closing `|`
                p = j + 3
                while p < len(toks) and txt(p) != '|':
                    if s[toks[p][1]] in OPEN:
                        ce = match_close(s, toks[p][1])
                        while p < len(toks) and toks[p][1] < ce:
                            p += 1
                        continue
                    p += 1
                if p + 1 < len(toks) and txt(p + 1) == '{':
                    bo = toks[p + 1][1]
                    be = match_close(s, bo)
                    q = p + 1
                    while q < len(toks) and toks[q][1] < be:
                        q += 1
                    if q < len(toks) and txt(q) == ';' and (only is None or name in only):
                        params = split_args(s, toks[j + 2][2], toks[p][1])
                        defs.append((name, toks[k][1], toks[q][2], params, bo, be))
                        k = q
                        continue
        k += 1
    if not defs:
        return s, 0
    edits = []
    n = 0
    for name, db, de, params, bo, be in defs:
        body = s[bo:be]
        body_toks = [(t, body[b:e]) for t, b, e in tokens(body)]
        if any(t == 'comment' and x.startswith('//') for t, x in body_toks):
            body = ''.join(x for t, x in body_toks if not (t in ('comment', 'doc') and x.startswith('//')))
        sig = [x for t, x in body_toks if t not in ('ws', 'comment', 'doc')]
        if 'return' in sig or '?' in sig:
            return None, 0
        pnames = []
        for prm in params:
            m = re.match(r'\s*(?:mut\s+)?([A-Za-z_]\w*)\s*:\s*(.+)$', prm, re.S)
            if not m:
                return None, 0
            pnames.append((m.group(1), m.group(2).strip()))
        body_idents = {x for t, x in body_toks if t == 'ident'} - {p for p, _ in pnames}
        flat = ' '.join(body.split())
        edits.append((db, de, ''))
        # uses of NAME after the definition
        last_call_end = de
        for kk in range(len(toks)):
            if toks[kk][0] == 'ident' and txt(kk) == name and toks[kk][1] >= de:
                if kk + 1 >= len(toks) or txt(kk + 1) != '(' or (kk > 0 and txt(kk - 1) in ('.', '&', ':')):
                    return None, 0
                ao = toks[kk + 1][1]
                ae = match_close(s, ao)
                args = split_args(s, ao + 1, ae - 1)
                if len(args) != len(pnames):
                    return None, 0
                for a in args:
                    if {a[b:e] for t, b, e in sig_tokens(a) if t == 'ident'} & {p for p, _ in pnames}:
                        return None, 0
                lets = ' '.join('let %s: %s = %s;' % (p, ty, a) for (p, ty), a in zip(pnames, args))
                edits.append((toks[kk][1], ae, '{ %s %s }' % (lets, flat)))
                last_call_end = max(last_call_end, ae)
                n += 1
        # a free name of the body re-bound between the definition and the last call
        for kk in range(len(toks) - 2):
            if de <= toks[kk][1] < last_call_end and txt(kk) == 'let':
                j = kk + 1
                if txt(j) == 'mut':
                    j += 1
                if toks[j][0] == 'ident' and txt(j) in body_idents and txt(j) != name and not any(d[0] == txt(j) for d in defs):
                    return None, 0
    return apply_edits(s, edits), n
