#!/bin/bash
# neutral.sh [regex]: apply each semantics-preserving patch in neutral/ to a scratch copy of /repo's HEAD, run the checks of the properties it
# touches against that copy (VERIF_REPO / VERIF_OUT / VERIF_BUILD: /repo and the committed evidence are never touched), expect exit 0
# (no alarm); exit 2 (undecided) is reported separately and is not an alarm either.
cd /verif
declare -A PROPS=( [N1]="C04 C08" [N2]="C03 C07" [N3]="C10" [N6]="C06" [N8]="C08 C01" [N9]="C15" [N10]="C14" [N11]="C16 C15" [N12]="C12" [N13]="C18 C05" [N14]="C17 C05" [N15]="C05 C08" [N16]="C15" [N17]="C16" [N18]="C11 C04"
  [N19]="C16" [N20]="C19" [N21]="C07 C01 C20" [N22]="C10 C20" [N23]="C13 C12 C09" [N24]="C19" [N25]="C16" [N26]="C19" [N27]="C16 C15" [N28]="C15 C18" [N29]="C16 C19" [N30]="C19" )
run_one() {
  n=$1; shift
  W=$(mktemp -d /tmp/neutral.XXXXXX); mkdir -p $W/repo $W/out $W/build
  git -C /repo archive HEAD | tar -x -C $W/repo
  if ! (cd $W/repo && patch -p1 -s < /verif/neutral/$n.diff >/dev/null 2>&1); then echo "$n: patch does not apply"; rm -rf $W; return; fi
  for p in "$@"; do
    out=$(VERIF_REPO=$W/repo VERIF_OUT=$W/out VERIF_BUILD=$W/build ./check $p quick 2>&1); rc=$?
    echo "$n $p rc=$rc $(echo "$out" | grep -E 'VIOLATION|UNDECIDED' | head -2 | cut -c1-200)"
  done
  rm -rf $W
}
export -f run_one
for f in neutral/*.diff; do
  n=$(basename $f .diff)
  echo "$n" | grep -qE -- "${1:-.}" || continue
  echo "$n ${PROPS[$n]}"
done | xargs -P ${JOBS:-4} -L1 bash -c 'run_one $0 "$@"'
