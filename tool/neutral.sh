#!/bin/bash
# neutral.sh: apply each semantics-preserving patch in neutral/ to /repo, run the checks of the properties it touches,
# expect exit 0 (no alarm) - exit 2 (undecided) is reported separately. Restores /repo after each.
cd /verif
NOUT=$(mktemp -d /tmp/neutral-out.XXXXXX)
declare -A PROPS=( [N1]="C04 C08" [N2]="C03 C07" [N3]="C10" [N6]="C06" [N8]="C08 C01" [N9]="C15" [N10]="C14" [N11]="C16 C15" [N12]="C12" [N13]="C18 C05" [N14]="C17 C05" [N15]="C05 C08" [N16]="C15" [N17]="C16" [N18]="C11 C04" )
for f in neutral/*.diff; do
  n=$(basename $f .diff)
  git -C /repo apply /verif/$f || { echo "$n: patch does not apply"; continue; }
  ( cd /repo && cargo build --offline 2>&1 | grep -qE "^error" && echo "$n: DOES NOT COMPILE" )
  for p in ${PROPS[$n]}; do
    out=$(VERIF_OUT=$NOUT ./check $p 2>&1); rc=$?
    echo "$n $p rc=$rc $(echo "$out" | grep -E 'VIOLATION|UNDECIDED' | head -2 | cut -c1-200)"
  done
  git -C /repo checkout -- .
done
rm -rf $NOUT
