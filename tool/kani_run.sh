#!/bin/bash
# kani_run.sh <harness file> [repo]: inject the harness module into a scratch overlay of the repo tree and run cargo kani on it
set -u
H=$(readlink -f "$1"); SRC=${2:-${VERIF_REPO:-/repo}}
HOST=$(sed -n 's,^//@host ,,p' "$H" | head -1); NAME=$(sed -n 's,^//@harness ,,p' "$H" | head -1)
EXTRA=$(sed -n 's,^//@kani-args ,,p' "$H" | head -1)
W=$(mktemp -d /tmp/verif-kani.XXXXXX); trap 'rm -rf "$W"' EXIT
rsync -a --exclude target --exclude .git "$SRC"/ "$W"/
cp "$H" "$W/src/verif_kani.rs"
printf '\n#[cfg(kani)]\n#[path = "%s/src/verif_kani.rs"]\nmod verif_kani;\n' "$W" >> "$W/$HOST"
mkdir -p /verif/.cache/kani-target
cd "$W" && CARGO_NET_OFFLINE=true CARGO_TARGET_DIR=/verif/.cache/kani-target timeout ${KANI_TIMEOUT:-1500} cargo kani --no-default-features -Z function-contracts -Z stubbing --harness "$NAME" $EXTRA 2>&1 | tail -${KANI_TAIL:-40}
exit ${PIPESTATUS[0]}
