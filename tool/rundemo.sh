#!/bin/bash
# rundemo.sh <demo.rs> [repo]: like tool/demo.sh but prints the panic message of the first failing test, enforces a timeout (TMO seconds,
# default 300) and kills only ITS OWN process group afterwards (a hanging scenario leaves the test binary behind otherwise)
DEMO=$(readlink -f "$1"); SRC=${2:-/repo}
W=$(mktemp -d /tmp/verif-demo.XXXXXX); trap 'rm -rf "$W"' EXIT
rsync -a --exclude target --exclude .git "$SRC"/ "$W"/
cp "$DEMO" "$W/src/verif_demo.rs"
HOST=$(sed -n 's,^//@host ,,p' "$DEMO" | head -1); HOST=${HOST:-src/lib.rs}
INSIDE=$(sed -n 's,^//@inside ,,p' "$DEMO" | head -1)
if [ -n "$INSIDE" ]; then
  python3 - "$W/$HOST" "$INSIDE" "$W" <<'P'
import sys, re
f, key, w = sys.argv[1:4]
t = open(f).read()
at = [m.end() for m in re.finditer(r'^[^\n]*' + re.escape(key.strip()) + r'[^\n]*\n', t, re.M)]
assert len(at) == 1, 'lost anchor %r' % key
open(f, 'w').write(t[:at[0]] + '\n#[cfg(test)]\n#[path = "%s/src/verif_demo.rs"]\nmod verif_demo;\n' % w + t[at[0]:])
P
else
  printf '\n#[cfg(test)]\n#[path = "%s/src/verif_demo.rs"]\nmod verif_demo;\n' "$W" >> "$W/$HOST"
fi
python3 - "$W" "${TMO:-300}" <<'P' | grep -a -E "^error|stdout ----|test result|panicked|TIMEOUT" -A7 | cut -c1-700 | head -${LINES_:-40}
import subprocess, os, signal, sys
w, tmo = sys.argv[1], int(sys.argv[2])
env = dict(os.environ, CARGO_TARGET_DIR='/verif/.cache/demo-target', CARGO_NET_OFFLINE='true', RUST_BACKTRACE='0')
p = subprocess.Popen(['cargo', 'test', '--offline', '--lib', 'verif_demo'], cwd=w, env=env, stdout=subprocess.PIPE, stderr=subprocess.STDOUT, start_new_session=True)
try:
    out, _ = p.communicate(timeout=tmo)
except subprocess.TimeoutExpired:
    os.killpg(p.pid, signal.SIGKILL)
    out, _ = p.communicate()
    out += b'\nTIMEOUT: the scenario did not finish within %d s\n' % tmo
try:
    os.killpg(p.pid, signal.SIGKILL)
except ProcessLookupError:
    pass
sys.stdout.write(out.decode('utf-8', 'replace'))
P
true
