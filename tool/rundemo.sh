#!/bin/bash
# rundemo.sh <demo.rs> [repo]: like tool/demo.sh but prints the panic message of the first failing test
DEMO=$(readlink -f "$1"); SRC=${2:-/repo}
W=$(mktemp -d /tmp/verif-demo.XXXXXX); trap 'rm -rf "$W"' EXIT
rsync -a --exclude target --exclude .git "$SRC"/ "$W"/
cp "$DEMO" "$W/src/verif_demo.rs"
HOST=$(sed -n 's,^//@host ,,p' "$DEMO" | head -1); HOST=${HOST:-src/lib.rs}
printf '\n#[cfg(test)]\n#[path = "%s/src/verif_demo.rs"]\nmod verif_demo;\n' "$W" >> "$W/$HOST"
cd "$W" && CARGO_TARGET_DIR=/verif/.cache/demo-target CARGO_NET_OFFLINE=true RUST_BACKTRACE=0 timeout ${TMO:-300} cargo test --offline --lib verif_demo 2>&1 | grep -a -E "^error|stdout ----|test result|panicked" -A7 | cut -c1-700 | head -${LINES_:-40}
pkill amiquip- 2>/dev/null; true
