#!/bin/bash
# evcheck.sh: the committed evidence files must be records of clean runs on the unchanged tree (run before every commit that touches evidence/)
cd /verif; bad=0
for f in evidence/*.json; do python3 - "$f" <<'P' || bad=1
import json,sys
e=json.load(open(sys.argv[1])); c=e['coverage']
if c.get('obligations')!=c.get('discharged') or e['violations']:
    print('NOT CLEAN:', sys.argv[1], c.get('obligations'), c.get('discharged'), e['violations']); sys.exit(1)
P
done
[ $bad = 0 ] && echo "evidence clean"
exit $bad
