#!/usr/bin/env python3
"""mutate.py gen <n> <seed> | run <jobs>: a mutation campaign used to look for obligations that are missing (not part of any registered check).
gen : sample n single-token mutants (comparison / boolean operators, small constants, boolean literals, dropped `!`) of the library code the
      properties are anchored in; writes mutants/list.json
run : for each mutant: scratch copy of /repo's HEAD + the mutation; must compile and keep the 40 unit tests green (else it is not a change
      "that still passes the existing tests"); then ./check <P> quick for the properties mapped to its file (VERIF_REPO / VERIF_OUT /
      VERIF_BUILD scratch). A mutant for which every check exits 0 SURVIVES: either equivalent, or a gap. Results: mutants/results.jsonl"""
import sys, os, re, json, random, subprocess, tempfile, shutil
ROOT = os.path.dirname(os.path.dirname(os.path.abspath(__file__)))
sys.path.insert(0, os.path.join(ROOT, 'tool'))
import rx
FILES = {
    'src/confirm.rs': ['C14'], 'src/io_loop/channel_slots.rs': ['C10', 'C04'], 'src/io_loop/content_collector.rs': ['C03', 'C07'],
    'src/frame_buffer.rs': ['C06', 'C05', 'C03'], 'src/heartbeats.rs': ['C17'], 'src/io_loop/heartbeat_timers.rs': ['C17'],
    'src/io_loop/handshake_state.rs': ['C16', 'C15'], 'src/io_loop/connection_state.rs': ['C03', 'C04', 'C07', 'C08', 'C09', 'C11', 'C13', 'C20'],
    'src/io_loop/mod.rs': ['C01', 'C05', 'C08', 'C10', 'C16', 'C17', 'C18', 'C20', 'C06'], 'src/io_loop/io_loop_handle.rs': ['C04', 'C05', 'C09', 'C01', 'C02'],
    'src/io_loop/channel_handle.rs': ['C02', 'C12', 'C15', 'C13', 'C09'], 'src/serialize.rs': ['C01', 'C02', 'C08'], 'src/connection_options.rs': ['C15', 'C16', 'C19'], 'src/auth.rs': ['C16', 'C19'],
    'src/channel.rs': ['C12', 'C04'], 'src/queue.rs': ['C12'], 'src/exchange.rs': ['C12'], 'src/consumer.rs': ['C12', 'C11'], 'src/delivery.rs': ['C12'],
    'src/connection.rs': ['C19', 'C18', 'C05', 'C08', 'C10', 'C13'],
}
# MUT_FILES=<regex> restricts a campaign to some files, MUT_TAG=<suffix> keeps its list / results apart (mutants/list<TAG>.json, results<TAG>.jsonl)
if os.environ.get('MUT_FILES'):
    FILES = {k: v for k, v in FILES.items() if re.search(os.environ['MUT_FILES'], k)}
TAG = os.environ.get('MUT_TAG', '')
SWAP = {'==': ['!='], '!=': ['=='], '<': ['<='], '<=': ['<'], '>': ['>='], '>=': ['>'], '&&': ['||'], '||': ['&&'], '+': ['-'], '-': ['+']}


def candidates(rel):
    src = open(os.path.join('/repo', rel)).read()
    cut = src.find('#[cfg(test)]\nmod tests')
    if cut < 0:
        cut = src.find('#[cfg(test)]\n    mod tests')
    end = cut if cut >= 0 else len(src)
    toks = [(tk, b, e) for tk, b, e in rx.tokens(src, 0, end) if tk not in ('ws', 'comment', 'doc')]
    out = []
    for i, (tk, b, e) in enumerate(toks):
        line = src.count('\n', 0, b) + 1
        ltxt = src[src.rfind('\n', 0, b) + 1:src.find('\n', b)]
        if re.search(r'\b(trace|debug|info|warn|error)!|^\s*(use|#\[|///)|assert', ltxt):
            continue
        w = src[b:e]
        nxt = src[toks[i + 1][1]:toks[i + 1][2]] if i + 1 < len(toks) else ''
        prv = src[toks[i - 1][1]:toks[i - 1][2]] if i > 0 else ''
        two = w + nxt if (i + 1 < len(toks) and toks[i + 1][1] == e) else None
        if tk == 'punct':
            if two in SWAP and two in ('==', '!=', '<=', '>=', '&&', '||'):
                for r in SWAP[two]:
                    out.append((rel, line, b, toks[i + 1][2], two, r))
            elif w in ('<', '>') and two not in ('<=', '>=', '<<', '>>', '->', '=>') and prv not in ('-', '=') and re.search(r'\s[<>]\s', src[b - 1:e + 1]):
                out.append((rel, line, b, e, w, SWAP[w][0]))
            elif w in ('+', '-') and nxt not in ('=', '>') and re.search(r'\s[+-]\s', src[b - 1:e + 1]):
                out.append((rel, line, b, e, w, SWAP[w][0]))
            elif w == '!' and nxt != '=' and prv not in (')', ']') and re.match(r'[A-Za-z_(]', nxt or ' ') and not re.match(r'\w', prv[-1:] or ' '):
                out.append((rel, line, b, e, '!', ''))
        elif tk == 'ident' and w in ('true', 'false'):
            out.append((rel, line, b, e, w, 'false' if w == 'true' else 'true'))
        elif tk == 'num' and w in ('0', '1', '2') and prv not in ('.',) and not re.search(r'Token\(|\[', ltxt):
            out.append((rel, line, b, e, w, {'0': '1', '1': '2', '2': '1'}[w]))
    return out


def gen(n, seed):
    rnd = random.Random(seed)
    allc = []
    for rel in FILES:
        c = candidates(rel)
        allc += c
    rnd.shuffle(allc)
    # spread over files: at most n/6 per file
    per = {}
    pick = []
    for c in allc:
        if per.get(c[0], 0) >= max(3, n // 6):
            continue
        per[c[0]] = per.get(c[0], 0) + 1
        pick.append(c)
        if len(pick) >= n:
            break
    os.makedirs(os.path.join(ROOT, 'mutants'), exist_ok=True)
    json.dump([{'id': 'M%03d' % i, 'file': c[0], 'line': c[1], 'b': c[2], 'e': c[3], 'from': c[4], 'to': c[5]} for i, c in enumerate(pick)],
              open(os.path.join(ROOT, 'mutants', 'list%s.json' % TAG), 'w'), indent=0)
    print(len(allc), 'candidates,', len(pick), 'picked;', per)


def run_one(m, slot):
    w = tempfile.mkdtemp(prefix='mut.', dir='/tmp')
    try:
        os.makedirs(w + '/repo'); os.makedirs(w + '/out'); os.makedirs(w + '/build')
        subprocess.run('git -C /repo archive HEAD | tar -x -C %s/repo' % w, shell=True, check=True)
        p = os.path.join(w, 'repo', m['file'])
        s = open(p).read()
        assert s[m['b']:m['e']] == m['from'], (s[m['b']:m['e']], m)
        open(p, 'w').write(s[:m['b']] + m['to'] + s[m['e']:])
        env = dict(os.environ, CARGO_TARGET_DIR='/verif/.cache/mut-target-%d' % slot, CARGO_NET_OFFLINE='true')
        # own process group: a mutant that makes a test spin must not leave its test binary behind (it would eat cores for hours)
        import signal
        pr = subprocess.Popen(['cargo', 'test', '--offline', '--lib'], cwd=w + '/repo', env=env, stdout=subprocess.PIPE, stderr=subprocess.PIPE, text=True, start_new_session=True)
        try:
            so, se = pr.communicate(timeout=600)
        except subprocess.TimeoutExpired:
            os.killpg(pr.pid, signal.SIGKILL)
            pr.communicate()
            return dict(m, status='tests-hang')
        finally:
            try:
                os.killpg(pr.pid, signal.SIGKILL)
            except ProcessLookupError:
                pass

        class _T:
            pass
        t = _T()
        t.returncode, t.stdout, t.stderr = pr.returncode, so, se
        if t.returncode != 0:
            st = 'no-compile' if 'error' in t.stderr and 'test result' not in t.stdout else 'killed-by-tests'
            return dict(m, status=st)
        rcs = {}
        for prop in FILES[m['file']]:
            env2 = dict(os.environ, VERIF_REPO=w + '/repo', VERIF_OUT=w + '/out', VERIF_BUILD=w + '/build')
            c = subprocess.run(['./check', prop, 'quick'], cwd=ROOT, env=env2, capture_output=True, text=True)
            rcs[prop] = c.returncode
            if c.returncode == 1:
                m = dict(m, how=(re.findall(r'failed obligation (.*)', c.stdout) or [''])[0][:160])
                break
        st = 'caught' if 1 in rcs.values() else ('undecided' if 2 in rcs.values() else 'SURVIVED')
        return dict(m, status=st, rcs=rcs)
    finally:
        shutil.rmtree(w, ignore_errors=True)


def run(jobs):
    from concurrent.futures import ThreadPoolExecutor
    import threading, queue
    ms = json.load(open(os.path.join(ROOT, 'mutants', 'list%s.json' % TAG)))
    done = set()
    rp = os.path.join(ROOT, 'mutants', 'results%s.jsonl' % TAG)
    if os.path.exists(rp):
        for l in open(rp):
            done.add(json.loads(l)['id'])
    slots = queue.Queue()
    for i in range(jobs):
        slots.put(i)
    lock = threading.Lock()

    def work(m):
        if m['id'] in done:
            return
        s = slots.get()
        try:
            r = run_one(m, s)
        except Exception as e:
            r = dict(m, status='error', err=str(e)[:200])
        finally:
            slots.put(s)
        with lock:
            open(rp, 'a').write(json.dumps(r) + '\n')
            print(r['id'], r['file'], r['line'], repr(r['from']), '->', repr(r['to']), r['status'], r.get('rcs', ''), r.get('how', '')[:90], flush=True)
    with ThreadPoolExecutor(jobs) as ex:
        list(ex.map(work, ms))


if __name__ == '__main__':
    if sys.argv[1] == 'gen':
        gen(int(sys.argv[2]), int(sys.argv[3]))
    else:
        run(int(sys.argv[2]))
