#!/bin/bash
# seedone.sh <seed-id> [PROP..]: apply seeded/<seed-id>/patch.diff to a scratch copy of /repo's HEAD and run ./check <PROP> quick against it
# (default: the property the seed breaks); evidence, replays and assembled units go to scratch directories. Prints rc and the failed obligations.
cd /verif
s=$1; shift
PROPS="$@"; [ -z "$PROPS" ] && PROPS=$(python3 -c "import json;print(json.load(open('seeded/$s/meta.json'))['breaks_property'])")
W=$(mktemp -d /tmp/seedone.XXXXXX); mkdir -p $W/repo $W/out $W/build
git -C /repo archive HEAD | tar -x -C $W/repo
if ! (cd $W/repo && patch -p1 -s < /verif/seeded/$s/patch.diff >/dev/null 2>&1); then echo "$s PATCH-DOES-NOT-APPLY"; rm -rf $W; exit 3; fi
for P in $PROPS; do
  O=$(VERIF_REPO=$W/repo VERIF_OUT=$W/out VERIF_BUILD=$W/build ./check $P ${TIER:-quick} 2>&1); rc=$?
  echo "$s $P rc=$rc"; echo "$O" | grep -E "failed obligation|UNDECIDED" | cut -c1-260 | head -${LINES_MAX:-4}
done
rm -rf $W
