#!/usr/bin/env python3
"""replay.py <replay.json>: re-run the concrete scenario recorded in a replay file against /repo's current tree
(exit 1 if it still fails); without a recorded scenario, print the failed obligation and the verifier's output."""
import sys, json, subprocess, os
ROOT = os.path.dirname(os.path.dirname(os.path.abspath(__file__)))
d = json.load(open(sys.argv[1]))
print('property      :', d.get('property'))
print('obligation    :', d.get('failed_obligation'), 'in', d.get('function'), '(unit %s)' % d.get('unit'))
if d.get('source'):
    print('source        : %s:%s  %s' % (d['source']['file'], d['source']['line'], d['source']['text']))
print('verifier says :', d.get('verifier_message'))
w = d.get('witness')
if not w:
    print(d.get('verifier_output') or '')
    print('no concrete input recorded (no-failing-input-found); re-run the check to re-derive the obligation')
    sys.exit(0)
rc = 0
for t in w.get('tests', []):
    print('--- scenario', t['scenario'], 'test', t['test'])
    p = subprocess.run(['bash', os.path.join(ROOT, 'tool', 'demo.sh'), os.path.join(ROOT, t['scenario'])], capture_output=True, text=True)
    print(p.stdout[-3000:])
    rc = rc or (1 if p.returncode != 0 else 0)
sys.exit(rc)
