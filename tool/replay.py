#!/usr/bin/env python3
"""replay.py <replay.json>: re-run the concrete scenario recorded in a replay file against /repo's current tree
(exit 1 if it still fails); without a recorded scenario, print the failed obligation and the verifier's output."""
import sys, json, subprocess, os
ROOT = os.path.dirname(os.path.dirname(os.path.abspath(__file__)))
d = json.load(open(sys.argv[1]))
print('property      :', d.get('property'))
print('obligation    :', d.get('failed_obligation'), 'in', d.get('function'), '(unit %s)' % d.get('unit'))
if d.get('source'):
    print('source        : %s:%s  %s' % (d['source']['file'], d['source']['line'], d['source']['text']))
print('verifier says :', d.get('verifier_message'))
w = d.get('witness')
if not w:
    print(d.get('verifier_output') or '')
    print('no concrete input recorded (no-failing-input-found); re-run the check to re-derive the obligation')
    sys.exit(0)
rc = 0
repo = os.environ.get('VERIF_REPO', '/repo')
for t in w.get('tests', []):
    print('--- scenario', t.get('scenario'), 'test', t.get('test'))
    if not t.get('scenario'):
        continue
    # rundemo.sh: scratch overlay of the tree, the scenario wired in (also inside an inline module), time-out, own process group
    p = subprocess.run(['bash', os.path.join(ROOT, 'tool', 'rundemo.sh'), os.path.join(ROOT, t['scenario']), repo], capture_output=True, text=True,
                       env=dict(os.environ, TMO=os.environ.get('TMO', '600'), LINES_='80'))
    print(p.stdout[-4000:])
    if 'test result: FAILED' in p.stdout or 'TIMEOUT' in p.stdout or '\nerror' in ('\n' + p.stdout):
        rc = 1
    elif 'test result: ok' not in p.stdout:
        rc = rc or 2
if not w.get('tests') and w.get('cmd'):
    print('replay with:', w['cmd'])
sys.exit(rc)
