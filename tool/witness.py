#!/usr/bin/env python3
"""witness.py - concrete scenarios run against the real code (bounded stand-in / counterexample search).

witness/<PROP>/*.rs are in-crate test modules (first line `//@host <file>`: the module is attached to that file of a
scratch overlay of /repo's working tree).  They all pass on the unchanged tree.  Used by vc.py
  * when a deductive obligation fails: a failing scenario is a concrete counterexample replayed on the real code;
  * when a unit is undecided (lost anchor / unsupported construct after a refactoring): bounded stand-in, never counted as proof.
usage: witness.py <PROP> [<PROP>..]   (exit 1 if a scenario fails)
"""
import sys, os, re, glob, subprocess, tempfile, shutil, json, time
ROOT = os.path.dirname(os.path.dirname(os.path.abspath(__file__)))
REPO = os.environ.get('VERIF_REPO', '/repo')


def run(props, timeout=180, only=None, confirm=True, threads=8, tests=None):
    """runs the scenario files; a file that does not compile against this tree (it calls a function whose signature a change reshaped) is
    left out and the rest is run again - one stale scenario must not silence the others (files left out are listed under 'not_built')"""
    files = []
    for p in props:
        files += sorted(glob.glob(os.path.join(ROOT, 'witness', p, '*.rs')))
    if only is not None:
        files = [os.path.join(ROOT, f) for f in only]
    left_out = []
    for attempt in range(6):
        res = _run(props, [f for f in files if os.path.relpath(f, ROOT) not in left_out], timeout, confirm, threads, tests)
        bad = res.pop('_not_building', None)
        if not bad:
            break
        left_out += [b for b in bad if b not in left_out]
    res['not_built'] = left_out
    # a scenario listed in known_findings.json as an OPEN finding (unit "scenario", fn = the scenario file, obligation = the test function)
    # fails by definition on the unchanged tree: it is reported as KNOWN-FINDING by the caller, not as a failure. Any other failing test -
    # also another test of the same file - stays a failure.
    res['known'] = []
    try:
        kf = [k for k in json.load(open(os.path.join(ROOT, 'known_findings.json'))).get('findings', []) if k.get('status') == 'open' and k.get('unit') == 'scenario']
    except Exception:
        kf = []
    if kf and res.get('failed'):
        keep = []
        for f in res['failed']:
            name = f['test'].replace(' (did not finish)', '').split('::')[-1]
            k = next((k for k in kf if k.get('property') in props and os.path.basename(k.get('fn', '')) == os.path.basename(f.get('scenario') or '') and k.get('obligation') == name), None)
            if k and ' (did not finish)' not in f['test']:
                res['known'].append({'finding': k, 'test': f['test'], 'scenario': f.get('scenario')})
            else:
                keep.append(f)
        res['failed'] = keep
    return res


def _run(props, files, timeout, confirm, threads, tests=None):
    # tests: run only the test functions with these names (the confirmation run repeats what failed, not whole files)
    flt = sorted(set(tests)) if tests else ['verif_w_']
    res = {'props': props, 'files': [os.path.relpath(f, ROOT) for f in files], 'ran': 0, 'passed': 0, 'failed': [], 'inconclusive': None, 'wall_s': 0}
    if not files:
        return res
    t0 = time.time()
    w = tempfile.mkdtemp(prefix='verif-witness.', dir='/tmp')
    try:
        subprocess.run(['rsync', '-a', '--exclude', 'target', '--exclude', '.git', REPO + '/', w + '/'], check=True)
        modmap = {}
        for k, f in enumerate(files):
            src = open(f).read()
            m = re.match(r'//@host (\S+)', src)
            host = m.group(1) if m else 'src/lib.rs'
            mod = 'verif_w_%d' % k
            modmap[mod] = os.path.relpath(f, ROOT)
            dst = os.path.join(w, 'src', mod + '.rs')
            open(dst, 'w').write(src)
            if not os.path.exists(os.path.join(w, host)):
                res['inconclusive'] = 'host file %s missing' % host
                return res
            wiring = '\n#[cfg(test)]\n#[path = "%s"]\nmod %s;\n' % (dst, mod)
            mi = re.search(r'^//@inside (.+)$', src, re.M)
            if mi:
                # the scenario module becomes a child of an inline module of the host file (it sees that module's private items): the
                # wiring goes right behind the line that opens it
                text = open(os.path.join(w, host)).read()
                key = mi.group(1).strip()
                at = [m.end() for m in re.finditer(r'^[^\n]*' + re.escape(key) + r'[^\n]*\n', text, re.M)]
                if len(at) != 1:
                    res['inconclusive'] = 'lost anchor: %r in %s (%d occurrences)' % (key, host, len(at))
                    return res
                open(os.path.join(w, host), 'w').write(text[:at[0]] + wiring + text[at[0]:])
            else:
                with open(os.path.join(w, host), 'a') as fh:
                    fh.write(wiring)
        env = dict(os.environ, CARGO_TARGET_DIR=os.path.join(ROOT, '.cache', 'demo-target'), CARGO_NET_OFFLINE='true')
        # own process group: a scenario that hangs must not leave its test binary behind, and nobody else's processes are touched
        import signal
        pr = subprocess.Popen(['cargo', 'test', '--offline', '--lib'] + flt + ['--', '--test-threads', str(threads)], cwd=w, env=env,
                              stdout=subprocess.PIPE, stderr=subprocess.STDOUT, text=True, start_new_session=True)
        hung = []
        try:
            out, _ = pr.communicate(timeout=timeout)
        except subprocess.TimeoutExpired:
            # something hangs: every test that has not reported by now is a scenario that does not finish (they carry their own
            # watchdogs; what is left are calls on the real code that never return).  Which ones: the test list minus the finished ones.
            os.killpg(pr.pid, signal.SIGKILL)
            out, _ = pr.communicate()
            out = out or ''
            try:
                ls = subprocess.run(['cargo', 'test', '--offline', '--lib'] + flt + ['--', '--list'], cwd=w, env=env, capture_output=True, text=True, timeout=300)
                names = re.findall(r'^(\S+): test$', ls.stdout, re.M)
            except Exception:
                names = []
            finished = set(n for n, _ in re.findall(r'^test (\S+) \.\.\. (ok|FAILED)', out, re.M))
            hung = [n for n in names if n not in finished] or ['(unknown scenario)']
        finally:
            try:
                os.killpg(pr.pid, signal.SIGKILL)
            except ProcessLookupError:
                pass
        tests = re.findall(r'^test (\S+) \.\.\. (ok|FAILED)', out, re.M)
        for name in hung:
            mod = next((m for m in modmap if ('::' + m + '::') in ('::' + name)), None)
            res['failed'].append({'test': name + ' (did not finish)', 'scenario': modmap.get(mod),
                                  'output': 'the scenario did not finish within %d s: some call on the real code never returns' % timeout,
                                  'cmd': 'tool/rundemo.sh %s' % modmap.get(mod)})
        res['ran'] += len(hung)
        if not tests and not hung:
            res['inconclusive'] = 'scenarios did not build or run: ' + ' | '.join([l for l in out.split('\n') if l.startswith('error')][:3])
            # which scenario modules do the compiler errors point into?
            mods = set(re.findall(r'-->\s*\S*?/src/(verif_w_\d+)\.rs:', out))
            bad = sorted({modmap[m] for m in mods if m in modmap})
            if bad and len(bad) < len(files):
                res['_not_building'] = bad
            return res
        res['ran'] += len(tests)
        for name, st in tests:
            if st == 'ok':
                res['passed'] += 1
            else:
                mod = next((m for m in modmap if ('::' + m + '::') in ('::' + name)), None)
                mm = re.search(r"---- %s stdout ----\n(.*?)(?=\n---- |\nfailures:)" % re.escape(name), out, re.S)
                res['failed'].append({'test': name, 'scenario': modmap.get(mod), 'output': (mm.group(1) if mm else '')[:1500],
                                      'cmd': 'tool/demo.sh %s' % modmap.get(mod)})
    finally:
        shutil.rmtree(w, ignore_errors=True)
        res['wall_s'] = round(time.time() - t0, 1)
    # a failure is reported only if it repeats when its file is run again on its own, one test at a time: scenarios with threads and
    # timeouts can fail once under machine load, a real failure is there every time
    if confirm and res['failed']:
        again_files = sorted({f['scenario'] for f in res['failed'] if f.get('scenario')})
        if again_files:
            again_tests = [f['test'].replace(' (did not finish)', '').split('::')[-1] for f in res['failed']]
            second = run(props, timeout=timeout, only=again_files, confirm=False, threads=2, tests=again_tests)
            if not second.get('inconclusive'):
                names2 = {f['test'].replace(' (did not finish)', '').split('::')[-1] for f in list(second['failed']) + list(second.get('known', []))}
                kept = [f for f in res['failed'] if f['test'].replace(' (did not finish)', '').split('::')[-1] in names2]
                res['unconfirmed_failures'] = [f['test'] for f in res['failed'] if f not in kept]
                res['passed'] += len(res['failed']) - len(kept)
                res['failed'] = kept
                res['wall_s'] = round(time.time() - t0, 1)
    return res


if __name__ == '__main__':
    r = run(sys.argv[1:])
    print(json.dumps(r, indent=1))
    sys.exit(1 if r['failed'] else 0)
