#!/usr/bin/env python3
"""witness.py - concrete scenarios run against the real code (bounded stand-in / counterexample search).

witness/<PROP>/*.rs are in-crate test modules (first line `//@host <file>`: the module is attached to that file of a
scratch overlay of /repo's working tree).  They all pass on the unchanged tree.  Used by vc.py
  * when a deductive obligation fails: a failing scenario is a concrete counterexample replayed on the real code;
  * when a unit is undecided (lost anchor / unsupported construct after a refactoring): bounded stand-in, never counted as proof.
usage: witness.py <PROP> [<PROP>..]   (exit 1 if a scenario fails)
"""
import sys, os, re, glob, subprocess, tempfile, shutil, json, time
ROOT = os.path.dirname(os.path.dirname(os.path.abspath(__file__)))
REPO = os.environ.get('VERIF_REPO', '/repo')


def run(props, timeout=420, only=None):
    files = []
    for p in props:
        files += sorted(glob.glob(os.path.join(ROOT, 'witness', p, '*.rs')))
    if only is not None:
        files = [os.path.join(ROOT, f) for f in only]
    res = {'props': props, 'files': [os.path.relpath(f, ROOT) for f in files], 'ran': 0, 'passed': 0, 'failed': [], 'inconclusive': None, 'wall_s': 0}
    if not files:
        return res
    t0 = time.time()
    w = tempfile.mkdtemp(prefix='verif-witness.', dir='/tmp')
    try:
        subprocess.run(['rsync', '-a', '--exclude', 'target', '--exclude', '.git', REPO + '/', w + '/'], check=True)
        modmap = {}
        for k, f in enumerate(files):
            src = open(f).read()
            m = re.match(r'//@host (\S+)', src)
            host = m.group(1) if m else 'src/lib.rs'
            mod = 'verif_w_%d' % k
            modmap[mod] = os.path.relpath(f, ROOT)
            dst = os.path.join(w, 'src', mod + '.rs')
            open(dst, 'w').write(src)
            if not os.path.exists(os.path.join(w, host)):
                res['inconclusive'] = 'host file %s missing' % host
                return res
            with open(os.path.join(w, host), 'a') as fh:
                fh.write('\n#[cfg(test)]\n#[path = "%s"]\nmod %s;\n' % (dst, mod))
        env = dict(os.environ, CARGO_TARGET_DIR=os.path.join(ROOT, '.cache', 'demo-target'), CARGO_NET_OFFLINE='true')
        # own process group: a scenario that hangs must not leave its test binary behind, and nobody else's processes are touched
        import signal
        pr = subprocess.Popen(['cargo', 'test', '--offline', '--lib', 'verif_w_', '--', '--test-threads', '8'], cwd=w, env=env,
                              stdout=subprocess.PIPE, stderr=subprocess.STDOUT, text=True, start_new_session=True)
        try:
            out, _ = pr.communicate(timeout=timeout)
        except subprocess.TimeoutExpired:
            os.killpg(pr.pid, signal.SIGKILL)
            pr.communicate()
            raise
        finally:
            try:
                os.killpg(pr.pid, signal.SIGKILL)
            except ProcessLookupError:
                pass
        tests = re.findall(r'^test (\S+) \.\.\. (ok|FAILED)', out, re.M)
        if not tests:
            res['inconclusive'] = 'scenarios did not build or run: ' + ' | '.join([l for l in out.split('\n') if l.startswith('error')][:3])
            return res
        res['ran'] = len(tests)
        for name, st in tests:
            if st == 'ok':
                res['passed'] += 1
            else:
                mod = next((m for m in modmap if ('::' + m + '::') in ('::' + name)), None)
                mm = re.search(r"---- %s stdout ----\n(.*?)(?=\n---- |\nfailures:)" % re.escape(name), out, re.S)
                res['failed'].append({'test': name, 'scenario': modmap.get(mod), 'output': (mm.group(1) if mm else '')[:1500],
                                      'cmd': 'tool/demo.sh %s' % modmap.get(mod)})
    except subprocess.TimeoutExpired:
        # something hangs: find out which scenario (each file on its own, shorter leash); a scenario that does not finish is a failing one
        # (the scenarios carry their own watchdogs; what is left are calls that never return)
        if len(files) > 1 and not os.environ.get('VERIF_WITNESS_NO_SPLIT'):
            for f in files:
                rel = os.path.relpath(f, ROOT)
                sub = run(props, timeout=min(timeout, 240), only=[rel])
                res['ran'] += sub.get('ran', 0)
                res['passed'] += sub.get('passed', 0)
                res['failed'] += sub.get('failed', [])
        else:
            rel = os.path.relpath(files[0], ROOT) if files else '?'
            res['failed'].append({'test': rel + ' (did not finish)', 'scenario': rel,
                                  'output': 'the scenario did not finish within %d s: some call on the real code never returns' % timeout,
                                  'cmd': 'tool/rundemo.sh %s' % rel})
    finally:
        shutil.rmtree(w, ignore_errors=True)
        res['wall_s'] = round(time.time() - t0, 1)
    return res


if __name__ == '__main__':
    r = run(sys.argv[1:])
    print(json.dumps(r, indent=1))
    sys.exit(1 if r['failed'] else 0)
