#!/usr/bin/env python3
"""regenerate MANIFEST.json from the table below (kept valid at all times)"""
import json, os
ROOT = os.path.dirname(os.path.dirname(os.path.abspath(__file__)))
TECH = "contract-based deductive verification (Verus/Z3) of functions re-extracted from /repo on every run"
CLAIMS = {
 "C14": ("Verus discharges a pop-if-present contract on the real Iter::next and Drop for every smoother state, payload and stash (unbounded): consecutive tags, each once, never an unconfirmed tag, outcome of the first covering confirmation, early drop equals full iteration.",
         "tags < 2^64-1; process/new_iter glue (fn pointers, outside Verus) checked by Kani in the thorough tier only; Drop loop termination not proved; trait dispatch of Iterator::next assumed (R6)"),
 "C10": ("Verus proves the representation invariant and exact Map-view postconditions of every operation of the real ChannelSlots (insert Some/None, remove, drain, get_mut, set_channel_max) for all channel_max, all tables and all operation sequences (invariant induction): ids unique, within 1..=channel_max, 0 rejected, freed ids reusable, Exhausted only when full, allocation loop terminates, no panic/overflow.",
         "indexmap::IndexSet by assumed set contract; HashMap::drain/iter/get_mut by assumed contracts (prelude mirrors); completeness of ExhaustedChannelIds (W4) not claimed after a failed entry constructor (poll registration fault); the request/response hand-over between Connection and the I/O thread (threads) is outside"),
 "C15": ("Verus proves on the real make_tune_ok, for all 2^96 option/Tune combinations, that TuneOk carries the lower limit with 0 as unlimited, the lower heartbeat, and FrameMaxTooSmall exactly below 4096; ChannelSlots proves no id above channel_max is ever handed out.",
         "heartbeat timing (C17) and the frame splitter's use of frame_max (C02) are separate units; the straight-line hand-over of TuneOk values in thread_main is not under contract yet"),
 "C06": ("Verus proves on the real Inner<Kind>::read_from (generic FrameKind, FnMut handler) and AmqpFrameKind: byte conservation between transport, buffer and handled frames for every read segmentation and would-block pattern, frames parsed only when fully buffered and with exactly the announced size, buffer advanced by exactly the handled frame and only after the handler accepted it, no read while a complete frame is buffered, and the error mapping.",
         "input_buffer::InputBuffer, parse_long_uint and amq_protocol::parse_frame by assumed contracts; a transport delivers < 2^64 bytes; the loop is partial correctness (it ends only on would-block/EOF/error by design); the identity of the frame sequence as a function of the bytes follows from these per-iteration obligations by induction, stated in DESIGN.md, not machine-checked"),
 "C03": ("Verus proves the real content collector (all three kinds, generic State<T>) against an abstract state machine for every header/body partition, and the real process() dispatcher: content frames touch only their channel's collector, a completed delivery/get/return is offered to exactly its addressee with every field copied, for every state and frame.",
         "cross-thread queue order and read segmentation (C06) are separate; crossbeam try_send is non-blocking on unbounded queues (assumed); 'exactly once' is permission + receipt (no second addressee, the expected one happened), the same allowed send twice is excluded only syntactically"),
 "C04": ("Verus proves on the real process(): every -Ok method, GetEmpty, ConsumeOk, CancelOk and CloseOk is offered to the reply queue of the frame's channel id and to no other queue; unknown ids give ReceivedFrameWithBogusChannelId.",
         "the client half (IoLoopHandle::call/recv type-check and the value copies in channel.rs) is not under contract yet; overlap of calls across threads is outside"),
 "C07": ("Verus proves for every ConnectionState, slot table, collector state and frame that process() and everything it calls reaches no panic site, never overflows, sends nothing outside the allowed set, maps each violation to its error (FrameUnexpected, ReceivedFrameWithBogusChannelId, UnknownConsumerTag, DuplicateConsumerTag) or to Connection.Close with 530/540 followed by sealing and ClientException, and ignores frames afterwards.",
         "memory exhaustion is not modelled beyond the documented with_capacity panic; reading 'a new method while content is outstanding' as a new content-bearing method (DESIGN.md C07)"),
 "C08": ("Verus proves the sealing invariant of SealableOutputBuffer for every operation (nothing appended after the seal), the close arms of process() (CloseOk pushed then sealed, every slot and consumer notified with the server's code/text or ClientClosedConnection, table emptied, state change) with unbounded loop invariants over the drains, and ConnectionClose message handling.",
         "is_connection_done/run_connection result mapping and Channel0Handle::close_connection are not under contract yet; 'whether or not the server closes the socket right after' is not decidable by a contract here (DESIGN.md F8)"),
 "C09": ("Verus proves on the real process(): Channel.Close(n) removes exactly slot n (every other slot equal to its old value), tells the caller and every consumer ServerClosedChannel with n, code and text, queues Channel.CloseOk on n; a stale wake-up for a removed slot is ignored; the id is reusable (ChannelSlots).",
         "waking the in-flight caller is crossbeam's; IoLoopHandle::check_recv_for_error not under contract yet"),
 "C11": ("Verus proves on the real process(): the consumer's sender leaves the table exactly in the arm that sends its terminal message (ServerCancelled, ClientCancelled, Client/ServerClosedChannel, Client/ServerClosedConnection), CancelOk is answered unless nowait, deliveries never remove a consumer.",
         "Consumer::cancel idempotence / Drop (consumer.rs) not under contract yet; in-order arrival is crossbeam FIFO (assumed); disconnect on drop of the sender is Rust/crossbeam semantics"),
 "C13": ("Verus proves on the real process() and Inner::process_channel_message: Ack/Nack/Return/Blocked/Unblocked are offered verbatim to the current listener and to nobody else, a failed send clears the listener without error, registering a listener replaces exactly that field of that slot.",
         "handle_set_blocked_tx and the ordering of registration versus later publishes through the mio FIFO are not under contract (schedules)"),
 "C01": ("Verus proves on the real code: the output buffer starts with the 8-byte protocol header; serialize() appends exactly one generator payload (no padding, nothing before it touched); every push_* appends exactly the bytes of one whole frame; the handle hands over exactly one whole frame per message; process_channel_message appends buffers whole; the write loop conserves written ++ buffered for every short-write / would-block pattern (unbounded loop invariant) and on error only a prefix went out.",
         "frame generators of amq_protocol/cookie-factory by assumed contract (their bytes are uninterpreted); cross-thread FIFO order of the mio channel and re-arming of socket interest are outside; the per-operation conservation facts compose to 'header ++ whole frames' by induction over operations, stated in DESIGN.md, not machine-checked"),
 "C02": ("Verus proves on the real ChannelHandle::send_content that the handle emits exactly one content header announcing the body length and the given properties, then body frames that are exactly chunks(body, frame_max) (unbounded loop invariant), with a machine-checked lemma that the chunks concatenate to the body, are non-empty, at most frame_max-8 payload bytes, all but the last full, none for an empty body; Channel0Handle::new fixes the payload limit at frame_max-8 and channels inherit it; the handle-level functions emit exactly one whole frame each.",
         "IoLoopHandle is seen through a ghost-log mirror whose contracts restate what unit handle proves in permission/receipt form (trusted glue, DESIGN.md 2.6); Channel::basic_publish / Exchange::publish field copies are not under contract yet (unit api); publish order across the thread hand-over is outside"),
 "C05": ("Verus proves the error mapping on the real code: read side (EOF -> UnexpectedSocketClose, I/O error -> IoErrorReadingSocket, would-block -> Ok, parse failure -> MalformedFrame, handler error propagated), write side (IoErrorWritingSocket, only a prefix written), missed heartbeats, handle send/recv (queued error first, else EventLoopDropped), run_connection / run_amqp_handshake final mapping (ServerClosedConnection with the server's code and text, ClientException, InvalidCredentials).",
         "PARTIAL by design: that every caller wakes in bounded time, consumer queues terminate, the thread exits and the transport is released follows from dropping senders (Rust drop + crossbeam disconnect) and is outside contract reach; run_io_loop itself is replaced by an assumed trampoline (R12); Connection::close_impl not under contract yet"),
 "C16": ("Verus proves the real HandshakeState::process transition function for every state and frame (StartOk only in reaction to Start, SaslSecureNotSupported, TuneOk then Open in reaction to Tune with C15's values and nothing below the 4096 floor, CloseOk + seal on a server Close, Done only after OpenOk, FrameUnexpected otherwise, heartbeat ignored), its termination, the frame-level type check, is_handshake_done and the final error mapping of run_amqp_handshake (InvalidCredentials when dropped in Secure, ServerClosedConnection with code and text).",
         "PARTIAL: make_start_ok (str::split, BTreeMap) is an assumed contract (bounded Kani harness planned for the thorough tier); ConnectionTimeout, 'never hangs', socket errors at every cut are outside; run_io_loop replaced by an assumed trampoline (R12)"),
 "C17": ("Verus proves the decision logic on the real heartbeats.rs / heartbeat_timers.rs: rx interval is twice the negotiated one, tx equals it; fire() reports Expired exactly when the interval has elapsed up to the documented 5 ms tolerance and re-arms for the full interval or the remaining time (no underflow); activity stamps touch only their own side; with heartbeat 0 nothing is started and nothing can fire; Inner queues a heartbeat frame only when its buffer is empty, maps rx expiry to MissedServerHeartbeats, stamps tx activity on accepted writes.",
         "PARTIAL (logic only): wall-clock clauses ('at least once per h seconds', 'promptly') and mio-extras timer ticks are outside; Instant/Duration/Timer are mirrors with a ghost clock; Inner sees HeartbeatTimers through a mirror whose contract corresponds to what unit heartbeat proves (trusted glue); the 5 ms tolerance is stated explicitly instead of the idealised 'not before 2h'"),
 "C20": ("Verus proves on the real IoLoop::handle_steady_event, for every token the loop registers and EVERY connection state and table (the precondition does not constrain the state an earlier event of the batch left behind): no panic site is reachable, Inner's invariant and the sealing invariant are kept, client requests do not change the connection state; stale wake-ups of dropped slots (channel 0 and others) are ignored; allocate_channel keeps the table invariant and the slot/handle carry the allocated id.",
         "which events mio actually batches is outside; the STREAM arm's read path is a havoc trampoline (R12) constrained by what units framebuf/process prove; 'Connection::close still reports the server's close' relies on C05's outside part"),
}
NA = {
 "C18": "every clause is about concurrency or liveness (blocking publishers, mio edge-triggered re-registration, kernel poll state); no contract within reach of Verus/Kani expresses it (DESIGN.md section 5)",
 "C19": "the semantics lives in the url / percent-encoding crates and in str processing, which Verus cannot reason about and CBMC cannot explore symbolically; with those contracts assumed the remaining obligation restates the code (DESIGN.md section 5)",
}
def main():
    props = [json.loads(l) for l in open(os.path.join(ROOT, 'properties.jsonl'))]
    fixes = []
    kf = json.load(open(os.path.join(ROOT, 'known_findings.json')))
    for f in kf['findings']:
        if f.get('status') == 'fixed' and f.get('commit') and f['commit'] not in fixes:
            fixes.append(f['commit'])
    m = {"version": 1,
         "setup_cmd": "mkdir -p build replays .cache && python3 tool/gen_protocol.py && python3 tool/vc.py assemble confirm >/dev/null",
         "hooks": {"guard": "kani",
                   "enable": "no hook lives in /repo: Verus units are re-extracted from /repo's working tree on every run; Kani harnesses are injected add-only into a scratch overlay (cfg(kani) is set by cargo-kani there)",
                   "baseline_off_cmd": "cd /repo && cargo test --workspace --no-fail-fast --offline",
                   "source_commits": fixes, "add_only": True},
         "engines": [{"name": "vc", "path": "tool/vc.py", "serves_properties": sorted(CLAIMS),
                      "kind_free_text": "extract real functions from /repo, apply the fixed rewrite table, weave contracts (units/*/unit.vrs), discharge with Verus/Z3; per-function `ensures false` canary against vacuity; Kani harnesses in the thorough tier"}],
         "checks": [], "notes": "see DESIGN.md; known findings and fix records in known_findings.json",
         "not_applicable": []}
    for p in props:
        pid = p['id']
        if pid in CLAIMS:
            text, note = CLAIMS[pid]
            m["checks"].append({"property_id": pid, "quick_cmd": "./check %s quick" % pid, "thorough_cmd": "./check %s thorough" % pid,
                                "evidence_file": "/verif/evidence/%s.json" % pid, "replay_cmd_template": "./check --replay {path}", "engine": "vc",
                                "level_claimed": {"category": "proof", "text": text, "design_ref": "DESIGN.md section 4, " + pid},
                                "level_note": note, "technique": TECH})
        else:
            m["not_applicable"].append({"property_id": pid, "reason": NA.get(pid, "unit not built yet (DESIGN.md section 8 build order)")})
    json.dump(m, open(os.path.join(ROOT, 'MANIFEST.json'), 'w'), indent=1)
if __name__ == '__main__':
    main()
