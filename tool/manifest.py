#!/usr/bin/env python3
"""regenerate MANIFEST.json from the table below (kept valid at all times)"""
import json, os
ROOT = os.path.dirname(os.path.dirname(os.path.abspath(__file__)))
TECH = "contract-based deductive verification (Verus/Z3) of functions re-extracted from /repo on every run"
CLAIMS = {
 "C14": ("Verus discharges a pop-if-present contract on the real Iter::next and Drop for every smoother state, payload and stash (unbounded): consecutive tags, each once, never an unconfirmed tag, outcome of the first covering confirmation, early drop equals full iteration.",
         "tags < 2^64-1; process/new_iter glue (fn pointers, outside Verus) checked by Kani in the thorough tier only; Drop loop termination not proved; trait dispatch of Iterator::next assumed (R6)"),
 "C10": ("Verus proves the representation invariant and exact Map-view postconditions of every operation of the real ChannelSlots (insert Some/None, remove, drain, get_mut, set_channel_max) for all channel_max, all tables and all operation sequences (invariant induction): ids unique, within 1..=channel_max, 0 rejected, freed ids reusable, Exhausted only when full, allocation loop terminates, no panic/overflow.",
         "indexmap::IndexSet by assumed set contract; HashMap::drain/iter/get_mut by assumed contracts (prelude mirrors); completeness of ExhaustedChannelIds (W4) not claimed after a failed entry constructor (poll registration fault); the allocation request/response between Connection and the I/O thread is sequential glue checked in unit event"),
}
NA = {
 "C18": "every clause is about concurrency or liveness (blocking publishers, mio edge-triggered re-registration, kernel poll state); no contract within reach of Verus/Kani expresses it (DESIGN.md section 5)",
 "C19": "the semantics lives in the url / percent-encoding crates and in str processing, which Verus cannot reason about and CBMC cannot explore symbolically; with those contracts assumed the remaining obligation restates the code (DESIGN.md section 5)",
}
def main():
    props = [json.loads(l) for l in open(os.path.join(ROOT, 'properties.jsonl'))]
    fixes = []
    kf = json.load(open(os.path.join(ROOT, 'known_findings.json')))
    for f in kf['findings']:
        if f.get('status') == 'fixed' and f.get('commit') and f['commit'] not in fixes:
            fixes.append(f['commit'])
    m = {"version": 1,
         "setup_cmd": "mkdir -p build replays .cache && python3 tool/vc.py assemble confirm >/dev/null",
         "hooks": {"guard": "kani",
                   "enable": "no hook lives in /repo: Verus units are re-extracted from /repo's working tree on every run; Kani harnesses are injected add-only into a scratch overlay (cfg(kani) is set by cargo-kani there)",
                   "baseline_off_cmd": "cd /repo && cargo test --workspace --no-fail-fast --offline",
                   "source_commits": fixes, "add_only": True},
         "engines": [{"name": "vc", "path": "tool/vc.py", "serves_properties": sorted(CLAIMS),
                      "kind_free_text": "extract real functions from /repo, apply the fixed rewrite table, weave contracts (units/*/unit.vrs), discharge with Verus/Z3; per-function `ensures false` canary against vacuity; Kani harnesses in the thorough tier"}],
         "checks": [], "notes": "see DESIGN.md; known findings and fix records in known_findings.json",
         "not_applicable": []}
    for p in props:
        pid = p['id']
        if pid in CLAIMS:
            text, note = CLAIMS[pid]
            m["checks"].append({"property_id": pid, "quick_cmd": "./check %s quick" % pid, "thorough_cmd": "./check %s thorough" % pid,
                                "evidence_file": "/verif/evidence/%s.json" % pid, "replay_cmd_template": "./check --replay {path}", "engine": "vc",
                                "level_claimed": {"category": "proof", "text": text, "design_ref": "DESIGN.md section 4, " + pid},
                                "level_note": note, "technique": TECH})
        else:
            m["not_applicable"].append({"property_id": pid, "reason": NA.get(pid, "unit not built yet (DESIGN.md section 8 build order)")})
    json.dump(m, open(os.path.join(ROOT, 'MANIFEST.json'), 'w'), indent=1)
if __name__ == '__main__':
    main()
