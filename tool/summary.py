#!/usr/bin/env python3
"""summary.py: one markdown row per property from the committed evidence files (what the last quick run of each check covered)."""
import json, os, glob
ROOT = os.path.dirname(os.path.dirname(os.path.abspath(__file__)))
m = json.load(open(os.path.join(ROOT, 'MANIFEST.json')))
partial = {c['property_id']: (c['level_note'].startswith('PARTIAL') or c['level_claimed']['text'].startswith('PARTIAL')) for c in m['checks']}
kf = json.load(open(os.path.join(ROOT, 'known_findings.json')))['findings']
open_f = {}
for k in kf:
    if k.get('status') == 'open':
        open_f.setdefault(k['property'], []).append(k['id'])
print('| property | units run | obligations (all discharged) | functions under contract | solver time | bounded stand-ins in the quick tier (never counted as proved) |')
print('|---|---|---|---|---|---|')
for p in sorted(glob.glob(os.path.join(ROOT, 'evidence', 'C*.json'))):
    e = json.load(open(p))
    c = e['coverage']
    units = ', '.join(u['unit'] for u in c.get('units', []))
    smt = sum((u.get('smt_ms') or 0) for u in c.get('units', [])) / 1000.0
    extras = []
    for x in c.get('extra_checks', []):
        n = x.get('name', '')
        if n.startswith('scenario:'):
            extras.append(os.path.basename(n[9:]))
        elif x.get('bounded') or 'bounded' in n:
            extras.append(n.split(' (')[0])
        else:
            extras.append(n.split(' (')[0] + ' [' + '/'.join(x.get('backends', [])) + ']')
    pid = e['property_id']
    print('| %s%s | %s | %d | %d | %.1f s | %s |' % (pid, (' (partial)' if partial.get(pid) else '') + (' (open finding %s)' % ', '.join(open_f[pid]) if pid in open_f else ''), units, c['obligations'], len(c.get('functions_under_contract', [])), smt, ', '.join(extras) or '-'))
