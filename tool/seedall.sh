#!/bin/bash
# seedall.sh [jobs]: regression of the whole machinery - every seeded change is applied to a scratch copy of /repo's HEAD and the check of the
# property it breaks is run against that copy (VERIF_REPO), evidence and replays redirected (VERIF_OUT). Prints one line per seed.
# NOTE: units are assembled under build/ with fixed names, so seeds are run one after the other.
cd /verif
OUT=$(mktemp -d /tmp/seedall-out.XXXXXX)
for d in seeded/*/; do
  s=$(basename $d); P=$(python3 -c "import json;print(json.load(open('seeded/$s/meta.json'))['breaks_property'])")
  W=$(mktemp -d /tmp/seedall.XXXXXX)
  git -C /repo archive HEAD | tar -x -C $W
  if ! (cd $W && patch -p1 -s < /verif/seeded/$s/patch.diff >/dev/null 2>&1); then echo "$s $P PATCH-DOES-NOT-APPLY"; rm -rf $W; continue; fi
  O=$(VERIF_REPO=$W VERIF_OUT=$OUT ./check $P quick 2>&1); rc=$?
  how=$(echo "$O" | grep -m1 "failed obligation" | sed 's/^ *failed obligation //' | cut -c1-110)
  echo "$s $P rc=$rc $how"
  rm -rf $W
done
rm -rf $OUT
