#!/bin/bash
# seedall.sh [jobs]: regression of the whole machinery - every seeded change is applied to a scratch copy of /repo's HEAD and the check of
# (SEEDS=<regex> restricts the run) the property it breaks is run against that copy (VERIF_REPO), with evidence, replays and the assembled units redirected (VERIF_OUT,
# VERIF_BUILD), so that it can run next to normal work and several seeds at a time. Prints one line per seed.
cd /verif
JOBS=${1:-3}
run_one() {
  s=$1
  P=$(python3 -c "import json;print(json.load(open('seeded/$s/meta.json'))['breaks_property'])")
  W=$(mktemp -d /tmp/seedall.XXXXXX)
  mkdir -p $W/repo $W/out $W/build
  git -C /repo archive HEAD | tar -x -C $W/repo
  if ! (cd $W/repo && patch -p1 -s < /verif/seeded/$s/patch.diff >/dev/null 2>&1); then echo "$s $P PATCH-DOES-NOT-APPLY"; rm -rf $W; return; fi
  O=$(VERIF_REPO=$W/repo VERIF_OUT=$W/out VERIF_BUILD=$W/build ./check $P quick 2>&1); rc=$?
  how=$(echo "$O" | grep -m1 "failed obligation" | sed 's/^ *failed obligation //' | cut -c1-110)
  echo "$s $P rc=$rc $how"
  rm -rf $W
}
export -f run_one
ls -d seeded/*/ | xargs -n1 basename | grep -E -- "${SEEDS:-.}" | xargs -P $JOBS -I{} bash -c 'run_one {}'
