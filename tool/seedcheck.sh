#!/bin/bash
# seedcheck.sh <seed-worktree> <seed-id> <PROP> [more props]: confirm a seeded change and run our checks against it
# - unmodified + demo: demo passes;  patched: existing 40 tests pass and the demo fails;  scratch copy of /repo + patch: ./check PROP
set -u
SRC=$(readlink -f "$1"); ID=$2; shift 2; PROPS="$@"
OUT=/verif/seeded/$ID; mkdir -p $OUT
cp $SRC/OUT/patch.diff $OUT/patch.diff; cp $SRC/OUT/README.md $OUT/agent_README.md 2>/dev/null
# demonstration = wiring diff + untracked source files of the worktree
git -C $SRC diff > $OUT/demo_wiring.diff
mkdir -p $OUT/demo_files; (cd $SRC && git ls-files --others --exclude-standard | grep -v '^OUT/' | grep -v '^target/' | while read f; do mkdir -p $OUT/demo_files/$(dirname $f); cp $f $OUT/demo_files/$f; done)
W=$(mktemp -d /tmp/seedchk.XXXXXX); trap 'rm -rf "$W"' EXIT
rsync -a --exclude target --exclude .git --exclude OUT /repo/ $W/
(cd $W && git init -q . 2>/dev/null; patch -p1 -s < $OUT/demo_wiring.diff; cp -r $OUT/demo_files/. $W/ 2>/dev/null)
export CARGO_TARGET_DIR=/verif/.cache/demo-target CARGO_NET_OFFLINE=true
A=$(cd $W && cargo test --offline --lib 2>&1 | grep -E "^test result" | head -1)
(cd $W && patch -p1 -s < $OUT/patch.diff) || { echo "patch does not apply"; exit 3; }
Bfull=$(cd $W && cargo test --offline --lib 2>&1)
B=$(echo "$Bfull" | grep -E "^test result" | head -1)
FAILED=$(echo "$Bfull" | grep -E "^test .* FAILED" | sed 's/ \.\.\. FAILED//; s/^test //' | tr '\n' ' ')
DOC=$(cd $W && cargo test --offline --doc 2>&1 | grep -E "^test result" | head -1)
echo "unmodified+demo : $A"
echo "patched         : $B"
echo "patched doctests: $DOC"
echo "failed tests    : $FAILED"
RES=""
SCRATCH_OUT=$(mktemp -d /tmp/seedchk-out.XXXXXX)  # evidence / replays of runs against the patched tree must not overwrite the real ones
W2=$(mktemp -d /tmp/seedchk-repo.XXXXXX); mkdir -p $W2/repo $W2/build   # our checks run against a scratch copy of /repo's HEAD + the patch: /repo itself is never touched
git -C /repo archive HEAD | tar -x -C $W2/repo
(cd $W2/repo && patch -p1 -s < $OUT/patch.diff) || { echo "patch does not apply to /repo's HEAD"; rm -rf $W2 $SCRATCH_OUT; exit 3; }
for P in $PROPS; do
  O=$(cd /verif && VERIF_REPO=$W2/repo VERIF_BUILD=$W2/build VERIF_OUT=$SCRATCH_OUT ./check $P quick 2>&1); RC=$?
  echo "--- ./check $P -> rc=$RC"; echo "$O" | grep -E "VIOLATION|UNDECIDED|OK |failed obligation" | head -8
  RES="$RES $P:rc=$RC"
done
rm -rf $SCRATCH_OUT $W2
python3 - "$ID" "$A" "$B" "$DOC" "$FAILED" "$RES" "$PROPS" <<'P'
import json,sys,os
ID,A,B,DOC,FAILED,RES,PROPS=sys.argv[1:8]
p='/verif/seeded/%s/meta.json'%ID
m=json.load(open(p)) if os.path.exists(p) else {}
m.update({"id":ID,"breaks_property":PROPS.split()[0],"confirmed":{"unmodified_plus_demo":A,"patched_lib_tests":B,"patched_doctests":DOC,"failing_tests_with_patch":FAILED.split()},
 "our_checks":RES.strip().split(),"ran":"tool/seedcheck.sh (scratch copy of /repo + demo wiring; our checks run against a second scratch copy of /repo's HEAD with the patch applied: VERIF_REPO)"})
json.dump(m,open(p,'w'),indent=1)
P
