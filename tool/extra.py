"""extra.py - checks beyond the Verus units, hooked into vc.check() (thorough tier): Kani harnesses on the real code.

kani/<name>.rs are harness modules (`//@host <file>`, `//@harness <fn>`) injected add-only into a scratch overlay of /repo's
working tree (cfg(kani) only) and run with cargo-kani / CBMC.  Loop-free harnesses over full-domain symbolic inputs are complete
proofs of what they assert; harnesses with an unwinding bound are labelled bounded.
"""
import os, re, subprocess, time
ROOT = os.path.dirname(os.path.dirname(os.path.abspath(__file__)))

HARNESSES = {
    'C14': [('kani/c14_glue.rs', 'ConfirmSmoother::process/new_iter glue (fn pointers, outside Verus): first step of the iterator for every (expected, tag, multiple, ack|nack), stash-insert branch excluded', False)],
    'C15': [('kani/c15_tune.rs', 'make_tune_ok over the full 2^96 domain (second back end, concrete counterexamples)', False)],
    'C06': [('kani/c06_parse_size.rs', 'AmqpFrameKind::parse_size incl. the real nom be_u32 parser on every buffer of up to 16 bytes', True)],
}


def run_harness(path, playback=False):
    env = dict(os.environ)
    env['KANI_TAIL'] = '400'
    env['KANI_TIMEOUT'] = env.get('KANI_TIMEOUT', '1500')
    t0 = time.time()
    p = subprocess.run(['bash', os.path.join(ROOT, 'tool', 'kani_run.sh'), os.path.join(ROOT, path)], capture_output=True, text=True, env=env)
    out = p.stdout + p.stderr
    return out, time.time() - t0


# harnesses that cover code no Verus unit can parse run in the quick tier too
QUICK = {'C14'}


# bounded scenario sweeps that run in EVERY tier because the function they exercise is only an assumed contract for Verus
# (a change inside it cannot fail a deductive obligation): labelled bounded, never counted as proved
ALWAYS_SCENARIOS = {
    'C16': [('witness/C16/sweep_start_ok.rs', 'ConnectionOptions::make_start_ok (assumed contract in unit handshake): every mechanisms / locales string of length <= 7 over a 3-letter alphabet against the assumed contract, plus the real PLAIN / EXTERNAL mechanisms on hand-picked server strings')],
}


def quick_sweeps(prop):
    """generic sweeps opted into the quick tier (second line `//@quick`): oracle written from the property text, no wall-clock dependence"""
    import glob
    out = []
    for f in sorted(glob.glob(os.path.join(ROOT, 'witness', prop, '*.rs'))):
        head = open(f).read(400).split('\n')
        if len(head) > 1 and head[1].startswith('//@quick'):
            rel = os.path.relpath(f, ROOT)
            if rel not in [p for p, _ in ALWAYS_SCENARIOS.get(prop, [])]:
                out.append((rel, 'generic sweep %s (see its header for the space explored)' % rel))
    return out


def run_scenarios(prop):
    import witness
    res = []
    todo = ALWAYS_SCENARIOS.get(prop, []) + quick_sweeps(prop)
    if not todo:
        return res
    # one cargo invocation for all of them
    w = witness.run([prop], only=[p for p, _ in todo])
    for path, what in todo:
        failed = [f for f in w.get('failed', []) if f.get('scenario') == path]
        entry = {'name': 'scenario:' + path, 'what': what, 'bounded': True, 'wall_s': w.get('wall_s'), 'backends': ['cargo-test (bounded)'],
                 'obligations': 0, 'discharged': 0, 'samples': ['bounded scenario sweep %s: %s' % (path, what)],
                 'trusted': ['bounded: covers only the stated input space']}
        known = [k for k in w.get('known', []) if k.get('scenario') == path]
        if known:
            entry['known_findings'] = [{'id': k['finding'].get('id'), 'what': k['finding'].get('what'), 'test': k['test']} for k in known]
        if failed:
            f0 = failed[0]
            entry['verdict'] = 'failed'
            entry['violations'] = [{'unit': 'scenario', 'fn': path, 'key': 'bounded:' + f0['test'], 'kind': 'bounded-scenario', 'label': None, 'props': [prop],
                                    'message': 'bounded scenario sweep fails on the real code', 'spans': [], 'src': None, 'rendered': f0['output']}]
        elif known:
            entry['verdict'] = 'known finding reproduced (bounded)'
        elif w.get('inconclusive') or not w.get('ran'):
            entry['verdict'] = 'inconclusive'
            entry['undecided'] = ['scenario %s did not run: %s' % (path, w.get('inconclusive'))]
        else:
            entry['verdict'] = 'passed (bounded)'
        res.append(entry)
    return res


def run_scenarios_old(prop):
    import witness
    res = []
    for path, what in ALWAYS_SCENARIOS.get(prop, []):
        w = witness.run([prop], only=[path])
        entry = {'name': 'scenario:' + path, 'what': what, 'bounded': True, 'wall_s': w.get('wall_s'), 'backends': ['cargo-test (bounded)'],
                 'obligations': 0, 'discharged': 0, 'ran': w.get('ran'), 'passed': w.get('passed'), 'samples': ['bounded scenario sweep %s: %s' % (path, what)],
                 'trusted': ['bounded: covers only the stated input space']}
        if w.get('failed'):
            f0 = w['failed'][0]
            entry['verdict'] = 'failed'
            entry['violations'] = [{'unit': 'scenario', 'fn': path, 'key': 'bounded:' + f0['test'], 'kind': 'bounded-scenario', 'label': None, 'props': [prop],
                                    'message': 'bounded scenario sweep fails on the real code', 'spans': [], 'src': None, 'rendered': f0['output']}]
        elif w.get('inconclusive') or not w.get('ran'):
            entry['verdict'] = 'inconclusive'
            entry['undecided'] = ['scenario %s did not run: %s' % (path, w.get('inconclusive'))]
        else:
            entry['verdict'] = 'passed (bounded)'
        res.append(entry)
    return res


# thorough tier: the whole witness scenario library of the property runs unconditionally, the generic sweeps with a deeper bound
THOROUGH_ENV = {'VERIF_C11_DEPTH': '7', 'VERIF_C13_DEPTH': '6', 'VERIF_F11_ROUNDS': '200000'}


def run_library_thorough(prop):
    import witness
    old = {k: os.environ.get(k) for k in THOROUGH_ENV}
    os.environ.update(THOROUGH_ENV)
    try:
        w = witness.run([prop], timeout=3000)
    finally:
        for k, v in old.items():
            if v is None:
                os.environ.pop(k, None)
            else:
                os.environ[k] = v
    if not w.get('files'):
        return []
    entry = {'name': 'witness-library (thorough tier, bounded)', 'what': 'every concrete scenario and generic sweep kept for %s, deeper bounds %s' % (prop, THOROUGH_ENV),
             'bounded': True, 'wall_s': w.get('wall_s'), 'backends': ['cargo-test (bounded)'], 'obligations': 0, 'discharged': 0,
             'files': w.get('files'), 'ran': w.get('ran'), 'passed': w.get('passed'), 'samples': ['bounded scenario library for %s' % prop],
             'trusted': ['bounded: covers only the stated input spaces']}
    if w.get('known'):
        entry['known_findings'] = [{'id': k['finding'].get('id'), 'what': k['finding'].get('what'), 'test': k['test']} for k in w['known']]
    if w.get('failed'):
        f0 = w['failed'][0]
        entry['verdict'] = 'failed'
        entry['violations'] = [{'unit': 'scenario', 'fn': f0.get('scenario'), 'key': 'bounded:' + f0['test'], 'kind': 'bounded-scenario', 'label': None, 'props': [prop],
                                'message': 'bounded scenario fails on the real code', 'spans': [], 'src': None, 'rendered': f0['output']}]
    elif w.get('inconclusive') or not w.get('ran'):
        entry['verdict'] = 'inconclusive'
        entry['undecided'] = ['scenario library did not run: %s' % w.get('inconclusive')]
    else:
        entry['verdict'] = 'passed (bounded)'
    return [entry]


def run(prop, tier, results):
    res = run_scenarios(prop)
    if tier == 'thorough':
        res += run_library_thorough(prop)
    if prop not in HARNESSES or (tier != 'thorough' and prop not in QUICK):
        return res
    for path, what, bounded in HARNESSES[prop]:
        out, wall = run_harness(path)
        m = re.search(r'\*\* (\d+) of (\d+) failed', out)
        entry = {'name': 'kani:' + path, 'what': what, 'bounded': bounded, 'wall_s': round(wall, 1), 'backends': ['kani-cbmc'],
                 'samples': ['kani harness %s: %s' % (path, what)], 'trusted': ['Kani 0.68 / CBMC 6.11; RandomState::new stubbed with a fixed key where a HashMap is involved']}
        if 'VERIFICATION:- SUCCESSFUL' in out and m:
            n = int(m.group(2))
            entry.update({'obligations': n if not bounded else 0, 'discharged': n if not bounded else 0, 'cbmc_checks': n, 'verdict': 'successful'})
        elif 'VERIFICATION:- FAILED' in out:
            failed = re.findall(r'Failed Checks: (.*)', out)
            entry.update({'obligations': int(m.group(2)) if m else 1, 'discharged': (int(m.group(2)) - int(m.group(1))) if m else 0, 'verdict': 'failed', 'failed_checks': failed[:10]})
            if any('unwinding' in f for f in failed):
                entry['undecided'] = ['kani %s: unwinding bound too small' % path]
            else:
                entry['violations'] = [{'unit': 'kani', 'fn': path, 'key': 'kani:' + (failed[0] if failed else 'assertion'), 'kind': 'kani', 'label': None, 'props': [prop],
                                        'message': 'Kani harness failed: ' + '; '.join(failed[:3]), 'spans': [], 'src': None, 'rendered': out[-3000:]}]
        else:
            entry.update({'obligations': 0, 'discharged': 0, 'verdict': 'inconclusive', 'undecided': ['kani %s did not finish: %s' % (path, out[-300:].replace('\n', ' '))]})
        res.append(entry)
    return res
