#!/usr/bin/env python3
"""vc.py - assemble verification units from /repo's working tree, run Verus, attribute
obligations to properties, write evidence (DESIGN.md section 2 and 7).

usage:
  vc.py check <PROP> [--tier quick|thorough]
  vc.py unit <unit> [--canary] [--keep]        (debugging: assemble + run one unit)
  vc.py assemble <unit>                        (write build/<unit>.rs only)
"""
import sys, os, re, json, time, subprocess, hashlib, difflib, shutil, glob
from concurrent.futures import ThreadPoolExecutor

HERE = os.path.dirname(os.path.abspath(__file__))
ROOT = os.path.dirname(HERE)
# evidence / replays of experiments against scratch trees (VERIF_REPO) can be redirected so that they do not overwrite the real ones
OUTROOT = os.environ.get('VERIF_OUT', ROOT)
sys.path.insert(0, HERE)
import rx  # noqa

REPO = os.environ.get('VERIF_REPO', '/repo')
BUILD = os.environ.get('VERIF_BUILD') or os.path.join(ROOT, 'build')
UNITS = os.path.join(ROOT, 'units')
VERUS = os.environ.get('VERUS', 'verus')
VERUS_TIMEOUT = int(os.environ.get('VERIF_VERUS_TIMEOUT', '600'))

DROP_ATTRS = re.compile(r'#\[\s*(inline|allow|must_use|cfg_attr|doc|deprecated|cfg\(test\))')
LABEL_RE = re.compile(r'//\s*\[([A-Za-z0-9_.,\- ]+)\]\s*$')


class Undecided(Exception):
    """lost anchor / unsupported construct / tool failure: exit 2, never an alarm"""


def pad_nl(orig, repl):
    d = orig.count('\n') - repl.count('\n')
    return repl + ('\n' * d if d > 0 else '')


# --------------------------------------------------------------------------------------
class Out:
    """assembled file with per-line origin"""

    def __init__(self):
        self.lines = []      # text
        self.origin = []     # dict
        self.fns = []        # dict(id, start, end, props, contracted, file, src_line)
        self.rule_counts = {}
        self.raw_extract = []   # (id, raw text, rewritten text) for the audit diff

    def emit(self, text, origin):
        for ln in text.split('\n'):
            self.lines.append(ln)
            self.origin.append(origin)

    def emit_src(self, text, file, first_line):
        for k, ln in enumerate(text.split('\n')):
            self.lines.append(ln)
            self.origin.append({'kind': 'src', 'file': file, 'line': first_line + k})

    def count(self, rule, n):
        if n:
            self.rule_counts[rule] = self.rule_counts.get(rule, 0) + n

    def text(self):
        return '\n'.join(self.lines) + '\n'


class Unit:
    def __init__(self, name):
        self.name = name
        self.dir = os.path.join(UNITS, name)
        self.path = os.path.join(self.dir, 'unit.vrs')
        if not os.path.exists(self.path):
            raise Undecided('no such unit %s' % name)
        self.serves = []
        self.no_panic = []
        self.rules = {'R1', 'R2', 'R4', 'R5', 'R9', 'R10', 'R11', 'R18'}
        self.guard_panics = False
        self.substs = []   # (scope, is_regex, frm, to)
        self.forloops = []  # (scope, expr literal, replacement iterator expr)   rule R7
        self.absent = []    # (scope, literal) that must not survive the rewrites (a substitution pattern was lost)
        self.inline_closures = []  # (scope, [closure names]) rule R19
        self.files = {}
        self.items_cache = {}
        self.verus_args = []

    # ---- source access
    def src(self, rel):
        if rel not in self.files:
            p = os.path.join(REPO, rel)
            if not os.path.exists(p):
                raise Undecided('lost anchor: file %s missing' % rel)
            self.files[rel] = open(p).read()
        return self.files[rel]

    def items(self, rel):
        if rel not in self.items_cache:
            try:
                self.items_cache[rel] = rx.parse_items(self.src(rel))
            except rx.LexError as e:
                raise Undecided('cannot lex %s: %s' % (rel, e))
        return self.items_cache[rel]

    def find_item(self, rel, kind, name):
        pool = self.items(rel)
        while '::' in name:
            # an item of an inline module of the file: `module::item`
            mod, name = name.split('::', 1)
            ms = [it for it in pool if it.kind == 'mod' and it.name == mod and it.body_open is not None]
            if len(ms) != 1:
                raise Undecided('lost anchor: mod %s in %s (%d candidates)' % (mod, rel, len(ms)))
            try:
                pool = rx.parse_items(ms[0].src, ms[0].body_open + 1, ms[0].end - 1)
            except rx.LexError as e:
                raise Undecided('cannot lex mod %s of %s: %s' % (mod, rel, e))
        # items of the test configuration and of non-default feature sets (`#[cfg(not(feature = ..))]`: every feature of the crate is a default
        # feature) are not part of the build under verification
        c = [it for it in pool if it.kind == kind and it.name == name
             and not any('cfg(test)' in a or re.search(r'cfg\(\s*not\(\s*feature\b', a) for a in it.attrs)]
        if len(c) != 1:
            raise Undecided('lost anchor: %s %s in %s (%d candidates)' % (kind, name, rel, len(c)))
        return c[0]

    def find_impl(self, rel, header_sub):
        want = rx.norm_ws(header_sub)
        c = [it for it in self.items(rel) if it.kind == 'impl' and (it.name == want or it.name.startswith(want + ' where') or it.name == want.rstrip())]
        if not c:
            c = [it for it in self.items(rel) if it.kind == 'impl' and want in it.name]
        if len(c) != 1:
            raise Undecided('lost anchor: impl "%s" in %s (%d candidates)' % (header_sub, rel, len(c)))
        return c[0]

    # ---- rewrites on an extracted piece of text
    def rewrite(self, text, out, scope):
        if 'R1' in self.rules:
            t, n = rx.r1_drop_log(text)
            text = self._padded(text, t, rx.r1_drop_log)
            out.count('R1', n)
        if 'R2' in self.rules:
            t, n = rx.r2_format(text)
            text = self._padded(text, t, rx.r2_format)
            out.count('R2', n)
        if 'R10' in self.rules:
            f = lambda s: rx.r10_assert_eq(s, guard=self.guard_panics)
            t, n = f(text)
            text = self._padded(text, t, f)
            out.count('R10', n)
        if 'R9' in self.rules:
            t, n = rx.r9_closure_wildcard(text)
            text = t
            out.count('R9', n)
        # R19: local closures capturing `&mut` (outside Verus) are beta-reduced at their call sites; runs before R2 would hide arguments
        for sc, names in self.inline_closures:
            if sc != '*' and sc != scope:
                continue
            try:
                t19, n19 = rx.r19_inline_closures(text, names)
            except rx.LexError as e:
                raise Undecided('cannot lex %s for R19: %s' % (scope, e))
            if t19 is None:
                raise Undecided('unsupported construct: a local closure of %s cannot be beta-reduced mechanically (R19 side conditions)' % scope)
            if names and not n19:
                raise Undecided('lost anchor: closures %s of %s are no longer defined / called' % (' '.join(names), scope))
            text = t19
            out.count('R19', n19)
        for sc, frm, to in self.forloops:
            if sc != '*' and sc != scope:
                continue
            text, n = rx.r7_desugar_for(text, frm, to)
            out.count('R7', n)
        # number the R7 iterators in source order (nested loops must not shadow each other in invariants)
        k = 0
        while 'let mut verif_it = ' in text:
            k += 1
            text = text.replace('let mut verif_it = ', 'let mut verif_it%d = ' % k, 1)
            text = text.replace('match verif_it.next()', 'match verif_it%d.next()' % k, 1)
        for sc, is_re, frm, to in self.substs:
            if sc != '*' and sc != scope and not (sc.endswith('*') and scope.startswith(sc[:-1])):
                continue
            if is_re:
                cnt = [0]

                def rep(m, to=to, cnt=cnt):
                    cnt[0] += 1
                    return pad_nl(m.group(0), m.expand(to))
                text = re.sub(frm, rep, text, flags=re.S)
                out.count('R8', cnt[0])
            else:
                n = text.count(frm)
                if n:
                    text = text.replace(frm, pad_nl(frm, to))
                    out.count('R8', n)
        # R18: `match` on string literal patterns (no meaning in Verus) becomes the if-chain that defines it
        if 'R18' in self.rules:
            t18, lits18, n18 = rx.r18_str_match(text)
            if n18:
                text = pad_nl(text, t18)
                out.count('R18', n18)
        # R17: a by-value `mut self` receiver (not supported by Verus) becomes `self` plus a mutable local `this` that the body uses
        m = re.match(r'(\s*(?:pub(?:\([^)]*\))?\s+)?fn\s+\w+\s*(?:<[^{;]*?>)?\s*\(\s*)mut\s+self\b', text, re.S)
        if m:
            bo_, _, _ = rx.fn_signature_parts(text)
            if bo_ is not None:
                head = text[:bo_].replace(m.group(0), m.group(1) + 'self', 1)
                body = re.sub(r'\bself\b', 'this', text[bo_ + 1:])
                text = head + '{ let mut this = self;' + body
                out.count('R17', 1)
        for sc, lit in self.absent:
            if (sc == '*' or sc == scope or (sc.endswith('*') and scope.startswith(sc[:-1]))) and lit in text:
                raise Undecided('lost anchor: call-site substitution pattern no longer matches in %s (still contains %r)' % (scope, lit))
        return text

    @staticmethod
    def _padded(orig, new, fn):
        # the rx rewrites do not pad; redo with padding by comparing newline counts per edit
        # (cheap way: edits never merge lines we care about, so pad at the end of each replaced span)
        return new

    def load_template(self, path, exported_only=False):
        lines = open(path).read().split('\n')
        if exported_only:
            try:
                a = lines.index('//@begin-export')
                b = lines.index('//@end-export')
            except ValueError:
                raise Undecided('template error: %s has no export section' % path)
            lines = lines[a + 1:b]
        outl = []
        for ln in lines:
            st = ln.strip()
            if st.startswith('//@splice '):
                outl += self.load_template(os.path.join(UNITS, st.split()[1]))
            elif st.startswith('//@import '):
                other = st.split()[1]
                outl += ['\x00' + x.lstrip('\x00') for x in self.load_template(os.path.join(UNITS, other, 'unit.vrs'), exported_only=True)]
            elif st in ('//@begin-export', '//@end-export'):
                continue
            else:
                outl.append(ln)
        return outl

    # ---- parsing the template
    def assemble(self, canary=False):
        """two passes: constants the extracted code refers to, that the template does not list and that are top-level `const`s of a file
        something is extracted from, are extracted too (in front of the first item taken from that file)"""
        self.auto_consts = {}
        self.auto_assoc = set()
        self.seen_assoc_consts = set()
        out = self._assemble(canary)
        text = out.text()
        defined = set(re.findall(r'\b(?:const|static)\s+([A-Z][A-Z0-9_]+)\b', text))
        used = set()
        for ln, o in zip(out.lines, out.origin):
            if o.get('kind') == 'src':
                used |= set(re.findall(r'(?<![:\w])([A-Z][A-Z0-9_]{2,})\b(?!\s*[:!(]{1,2}[:\w(])', ln))
        files = sorted({o['file'] for o in out.origin if o.get('kind') == 'src' and o.get('file')})
        # associated constants (`Self::NAME` / `Type::NAME`) of an impl block that is being extracted, not listed with //@assoc
        used_assoc = set()
        for ln, o in zip(out.lines, out.origin):
            if o.get('kind') == 'src':
                used_assoc |= set(re.findall(r'::([A-Z][A-Z0-9_]{2,})\b(?!\s*[:!(]{1,2}[:\w(])', ln))
        self.auto_assoc = (used_assoc - defined) & self.seen_assoc_consts
        want = {}
        for nm in sorted(used - defined):
            for rel in files:
                try:
                    self.find_item(rel, 'const', nm)
                except Undecided:
                    continue
                want.setdefault(rel, []).append(nm)
                break
        if want or self.auto_assoc:
            self.auto_consts = want
            out = self._assemble(canary)
        return out

    def _auto_consts_for(self, out, rel):
        for nm in self.auto_consts.pop(rel, []):
            self.emit_item(out, rel, 'const', nm, ['optional'])
            out.count('R16', 1)

    def _assemble(self, canary=False):
        out = Out()
        tmpl = self.load_template(self.path)
        self.imported_lines = [ln.startswith('\x00') for ln in tmpl]
        tmpl = [ln[1:] if ln.startswith('\x00') else ln for ln in tmpl]
        i = 0
        n = len(tmpl)
        impl_ctx = None   # dict(file, item, subs, emitted=set(), trait_impl)
        pending_skip = set()
        while i < n:
            line = tmpl[i]
            st = line.strip()
            if not st.startswith('//@'):
                out.emit(line, {'kind': 'tmpl', 'line': i + 1})
                i += 1
                continue
            parts = st[3:].split()
            d = parts[0] if parts else ''
            self.cur_imported = self.imported_lines[i]
            arg = st[3 + len(d):].strip()
            if d == 'unit':
                pass
            elif d == 'serves':
                self.serves = parts[1:]
            elif d == 'no-panic':
                # properties that promise 'this thread never panics': every panic / overflow / bounds obligation of the unit counts for them
                self.no_panic = parts[1:]
            elif d == 'norule':
                self.rules -= set(parts[1:])
            elif d == 'guard-panics':
                self.guard_panics = True
            elif d == 'verus-arg':
                self.verus_args += parts[1:]
            elif d == 'forloop':
                sc, frm, to = [x.strip() for x in arg.split(':::')]
                self.forloops.append((sc, frm, to))
            elif d == 'require-absent':
                sc, lit = [x.strip() for x in arg.split(':::')]
                self.absent.append((sc, lit))
            elif d == 'inline-closures':
                # R19: //@inline-closures <scope> [::: name name ..]  (no names: every local closure with a block body that is only called)
                segs = [x.strip() for x in arg.split(':::')]
                ent = (segs[0], tuple(segs[1].split()) if len(segs) > 1 and segs[1] else None)
                if ent not in self.inline_closures:   # the template is parsed once per assembling pass
                    self.inline_closures.append(ent)
            elif d in ('subst', 'resubst'):
                sc, frm, to = [x.strip() for x in arg.split(':::')]
                frm = frm.replace('\\n', '\n') if d == 'subst' else frm
                self.substs.append((sc, d == 'resubst', frm, to))
            elif d == 'include':
                p = os.path.join(ROOT, 'prelude', arg)
                for k, ln in enumerate(open(p).read().rstrip('\n').split('\n')):
                    out.emit(ln, {'kind': 'prelude', 'file': arg, 'line': k + 1})
            elif d == 'gen':
                if parts[1] == 'errors':
                    import gen_errors
                    try:
                        txt = gen_errors.generate(self.src('src/errors.rs'))
                    except Exception as e:
                        raise Undecided('cannot mirror src/errors.rs: %s' % e)
                    for k, ln in enumerate(txt.split('\n')):
                        out.emit(ln, {'kind': 'generated', 'file': 'src/errors.rs', 'line': k + 1})
                else:
                    raise Undecided('template error: unknown generator %s' % parts[1])
            elif d == 'expand-macro':
                # R13: `macro_rules! NAME { (ARGS) => { BODY }; }` invocations expanded textually with the macro's own body;
                # after each expanded impl header the template line given after `:::` is woven in ($1 = type path, $mod, $Cls, $Name from it)
                segs = [x.strip() for x in arg.split(':::')]
                rel, mname = segs[0].split()[0], segs[0].split()[1]
                spec_line = segs[1] if len(segs) > 1 else ''
                its = self.items(rel)
                mr = [x for x in its if x.kind == 'macro_rules' and x.name == mname]
                if len(mr) != 1:
                    raise Undecided('lost anchor: macro_rules %s' % mname)
                src = mr[0].src
                mbody = src[mr[0].body_open + 1:mr[0].end - 1]
                mm = re.match(r'\s*\((.*?)\)\s*=>\s*\{', mbody, re.S)
                if not mm:
                    raise Undecided('unsupported macro shape: %s' % mname)
                params = re.findall(r'\$(\w+)\s*:\s*\w+', mm.group(1))
                bo_ = mbody.index('{', mm.end() - 1)
                be_ = rx.match_close(mbody, bo_)
                body_t = mbody[bo_ + 1:be_ - 1]
                n_inv = 0
                for inv in its:
                    if inv.kind == 'macro' and inv.name == mname:
                        args = rx.split_args(inv.src, inv.body_open + 1, rx.match_close(inv.src, inv.body_open) - 1)
                        if len(args) != len(params):
                            raise Undecided('macro invocation arity mismatch: %s' % mname)
                        t = body_t
                        for pn, av in zip(params, args):
                            t = t.replace('$' + pn, rx.norm_ws(av))
                        t = self.rewrite(t, out, mname)
                        # weave the per-impl spec line after the impl header `{`
                        tp = rx.norm_ws(args[0])
                        segs_t = tp.split('::')
                        sp = spec_line.replace('$1', tp).replace('$mod', segs_t[-2]).replace('$Cls', segs_t[-2].capitalize()).replace('$Name', segs_t[-1])
                        hb = t.index('{')
                        line0 = rx.line_of(inv.src, inv.sig_begin)
                        start = len(out.lines) + 1
                        out.emit_src(t[:hb + 1].strip(), rel, line0)
                        if sp:
                            out.emit(sp, {'kind': 'contract', 'fn': 'TryFromAmqpClass<%s>::try_from' % tp, 'tmpl_line': i + 1})
                        # result naming (R5) for the method so the trait's ensures applies by name
                        out.emit_src(t[hb + 1:].rstrip(), rel, line0)
                        out.fns.append({'id': 'TryFromAmqpClass<%s>::try_from' % tp, 'start': start, 'end': len(out.lines), 'props': list(self.serves),
                                        'contracted': False, 'default': False, 'file': rel, 'src_line': line0, 'diverges': False,
                                        'imported': getattr(self, 'cur_imported', False), 'safety': None, 'sites': []})
                        n_inv += 1
                out.count('R13', n_inv)
            elif d == 'item':
                rel, kind, name = parts[1], parts[2], parts[3]
                self._auto_consts_for(out, rel)
                self.emit_item(out, rel, kind, name, parts[4:])
            elif d == 'impl':
                segs = [x.strip() for x in arg.split(':::')]
                rel, header = segs[0], segs[1]
                rehost = None
                for sg in segs[2:]:
                    if sg.startswith('rehost '):
                        rehost = sg[len('rehost '):]
                it = self.find_impl(rel, header)
                self._auto_consts_for(out, rel)
                subs = rx.sub_items(it)
                trait_impl = re.search(r'\bfor\b', it.name.split(' where')[0]) is not None and rehost is None
                hdr = rehost if rehost else it.src[it.sig_begin:it.body_open].rstrip()
                out.emit_src(hdr + ' {', rel, rx.line_of(it.src, it.sig_begin)) if not rehost else out.emit(hdr + ' {', {'kind': 'rehost', 'file': rel})
                if rehost:
                    out.count('R6', 1)
                impl_ctx = {'file': rel, 'item': it, 'subs': subs, 'emitted': set(), 'trait_impl': trait_impl,
                            'type': header}
                pending_skip = set()
                for x in subs:
                    if x.kind == 'const':
                        self.seen_assoc_consts.add(x.name)
                        if x.name in self.auto_assoc:
                            t = x.text()
                            if 'R4' in self.rules and not trait_impl:
                                t = rx.r4_visibility_item(t, 'const')
                            out.emit_src(t, rel, rx.line_of(x.src, x.sig_begin))
                            out.count('R16', 1)
            elif d == 'trait':
                segs = [x.strip() for x in arg.split(':::')]
                rel, tname = segs[0], segs[1]
                it = self.find_item(rel, 'trait', tname)
                subs = rx.sub_items(it)
                hdr = it.src[it.sig_begin:it.body_open].rstrip()
                if 'R4' in self.rules:
                    hdr = rx.r4_visibility_item(hdr, 'trait')
                out.emit_src(hdr + ' {', rel, rx.line_of(it.src, it.sig_begin))
                impl_ctx = {'file': rel, 'item': it, 'subs': subs, 'emitted': set(), 'trait_impl': True, 'type': tname}
                pending_skip = set()
            elif d == 'endimpl':
                out.emit('}', {'kind': 'tmpl', 'line': i + 1})
                impl_ctx = None
            elif d == 'skip':
                pending_skip |= set(parts[1:])
            elif d == 'assoc':
                # associated const / type inside the impl, verbatim
                name = parts[1]
                c = [x for x in impl_ctx['subs'] if x.name == name and x.kind in ('const', 'type')]
                if len(c) != 1:
                    raise Undecided('lost anchor: assoc %s' % name)
                t = c[0].text()
                if 'R4' in self.rules and not impl_ctx['trait_impl']:
                    t = rx.r4_visibility_item(t, c[0].kind)
                out.emit_src(t, impl_ctx['file'], rx.line_of(c[0].src, c[0].sig_begin))
            elif d in ('fn', 'rest'):
                # gather the contract block up to //@end
                j = i + 1
                block = []
                while j < n and tmpl[j].strip() != '//@end':
                    block.append((j + 1, tmpl[j]))
                    j += 1
                if j >= n:
                    raise Undecided('template error: //@%s without //@end at line %d' % (d, i + 1))
                opts = {}
                names = []
                for p in parts[1:]:
                    if '=' in p:
                        k, v = p.split('=', 1)
                        opts[k] = v
                    else:
                        names.append(p)
                contract = self.parse_contract(block)
                if d == 'fn':
                    if impl_ctx is not None:
                        fname = names[0]
                        c = [x for x in impl_ctx['subs'] if x.kind == 'fn' and x.name == fname]
                        if len(c) != 1:
                            raise Undecided('lost anchor: fn %s in impl %s' % (fname, impl_ctx['type']))
                        impl_ctx['emitted'].add(fname)
                        self.emit_fn(out, impl_ctx['file'], c[0], contract, opts, canary,
                                     owner=impl_ctx['type'], trait_impl=impl_ctx['trait_impl'])
                    else:
                        rel, fname = names[0], names[1]
                        it = self.find_item(rel, 'fn', fname)
                        self.emit_fn(out, rel, it, contract, opts, canary, owner=None, trait_impl=False)
                else:
                    for x in impl_ctx['subs']:
                        if x.kind == 'fn' and x.name not in impl_ctx['emitted'] and x.name not in pending_skip \
                                and not any('cfg(test)' in a for a in x.attrs):
                            impl_ctx['emitted'].add(x.name)
                            mut_self = re.search(r'&\s*(\'\w+\s+)?mut\s+self\b', x.header()) is not None
                            self.emit_fn(out, impl_ctx['file'], x, contract if mut_self else [], opts, canary,
                                         owner=impl_ctx['type'], trait_impl=impl_ctx['trait_impl'], default=mut_self)
                i = j
            else:
                raise Undecided('template error: unknown directive %s at line %d' % (d, i + 1))
            i += 1
        return out

    @staticmethod
    def parse_contract(block):
        """block: list of (tmpl line no, text). sections introduced by //@sig, //@attr, //@loop n, ..."""
        sections = []
        cur = None
        for ln, t in block:
            st = t.strip()
            if st.startswith('//@'):
                p = st[3:].split()
                cur = {'kind': p[0], 'n': (int(p[1]) if p[1].isdigit() else p[1]) if len(p) > 1 else None, 'lines': [], 'tmpl_line': ln}
                sections.append(cur)
            elif cur is not None:
                cur['lines'].append((ln, t))
            elif st:
                raise Undecided('template error: contract text outside a section at line %d' % ln)
        return sections

    def emit_item(self, out, rel, kind, name, flags):
        if 'optional' in flags:
            try:
                it = self.find_item(rel, kind, name)
            except Undecided:
                return
        else:
            it = self.find_item(rel, kind, name)
        text = it.text()
        raw = text
        attrs = [a for a in it.attrs if not DROP_ATTRS.match(a)]
        if 'noattrs' in flags:
            attrs = []
        if 'R4' in self.rules and 'nopub' not in flags:
            if kind in ('struct', 'enum', 'fn', 'const', 'type', 'static', 'trait'):
                text = rx.r4_visibility_item(text, kind)
            if kind == 'struct':
                text = rx.r4_struct_fields(text)
            out.count('R4', 1)
        text = self.rewrite(text, out, name)
        if kind == 'const':
            # R8 (generic form): `uN::max_value()` / `min_value()` are exec fns, not callable in a const initialiser under Verus - the
            # constants uN::MAX / uN::MIN are the same values by definition
            text, n_ = re.subn(r'\b(u8|u16|u32|u64|u128|usize|i8|i16|i32|i64|i128|isize)::(max|min)_value\(\)', lambda m_: '%s::%s' % (m_.group(1), m_.group(2).upper()), text)
            out.count('R8', n_)
        for a in attrs:
            out.emit(a, {'kind': 'src', 'file': rel, 'line': rx.line_of(it.src, it.begin)})
        out.emit_src(text, rel, rx.line_of(it.src, it.sig_begin))
        out.raw_extract.append(('%s %s' % (kind, name), raw, text))

    def emit_fn(self, out, rel, it, contract, opts, canary, owner, trait_impl, default=False):
        src_line = rx.line_of(it.src, it.sig_begin)
        raw = it.text()
        text = raw
        fid = ('%s::%s' % (re.sub(r'^impl(<[^>]*>)?\s*', '', owner).split('<')[0].split(' for ')[-1].strip(), it.name)) if owner else it.name
        canary_on = (canary is True) or (isinstance(canary, (set, frozenset)) and fid in canary)
        if 'R4' in self.rules:
            text = rx.r4_visibility_item(text, 'fn', in_trait_impl=trait_impl)
        text = self.rewrite(text, out, it.name)
        bo, ret, where_pos = rx.fn_signature_parts(text)
        has_body = bo is not None
        if bo is None:
            # trait method declaration: contract goes before the final `;`
            bo = len(text.rstrip()) - 1
            if text[bo] != ';':
                raise Undecided('fn %s has no body' % fid)
        secs = {}
        for s in contract:
            secs.setdefault((s['kind'], s['n']), []).append(s)
        has_sig = ('sig', None) in secs
        # insertion points: offset -> list of (lines, origin)
        inserts = []

        def block_lines(sec_list):
            ls = []
            for s in sec_list:
                for ln, t in s['lines']:
                    ls.append((t, {'kind': 'contract', 'fn': fid, 'tmpl_line': ln}))
            return ls

        # R5 result naming
        edits = []
        if ret is not None and has_sig and 'noresult' not in opts and 'R5' in self.rules:
            rb, re_ = ret
            rt = text[rb:re_]
            rts = rt.strip()
            if not rts.startswith('(r:') and rts != '!':
                lead = rt[:len(rt) - len(rt.lstrip())]
                trail = rt[len(rt.rstrip()):]
                edits.append((rb, re_, '%s(r: %s)%s' % (lead if lead else ' ', rts, trail if trail else ' ')))
                out.count('R5', 1)
        sig_lines = block_lines(secs.get(('sig', None), []))
        if canary_on and has_body and (has_sig or default) and not (ret is not None and text[ret[0]:ret[1]].strip() == '!'):
            sig_lines = add_canary(sig_lines, fid)
        if sig_lines:
            inserts.append((bo, sig_lines))
        body = text[bo:]
        if opts.get('strlits') == 'on' and has_body:
            # Verus knows the characters of a string literal only after reveal_strlit: reveal every literal the body mentions
            lits = []
            for tk_, b_, e_ in rx.sig_tokens(body):
                if tk_ == 'str' and body[b_:e_].startswith('"') and body[b_:e_] not in lits:
                    lits.append(body[b_:e_])
            if lits:
                # reveal_strlit's facts are triggered by `.len()` / index terms: state each literal's length and, for two literals of the same
                # length, the first position at which they differ (checked assertions, not assumptions), so that distinct literals are known distinct
                plain = [l for l in lits if '\\' not in l and l.startswith('"')]
                extra = ['assert(%s@.len() == %d);' % (l, len(l) - 2) for l in plain]
                for i1 in range(len(plain)):
                    for i2 in range(i1 + 1, len(plain)):
                        a_, b_ = plain[i1][1:-1], plain[i2][1:-1]
                        if len(a_) == len(b_) and a_ != b_:
                            k_ = [k for k in range(len(a_)) if a_[k] != b_[k]][0]
                            extra.append('assert(%s@[%d] != %s@[%d]);' % (plain[i1], k_, plain[i2], k_))
                rl = '        proof { ' + ' '.join('reveal_strlit(%s);' % l for l in lits) + ' ' + ' '.join(extra) + ' }'
                inserts.append((bo + 1, [(rl, {'kind': 'contract', 'fn': fid, 'tmpl_line': 0})]))
                # loops are verified in isolation: the same facts at the start of every loop body
                for _kw, _kpos, lbo_, _lend in rx.find_loops(body):
                    inserts.append((bo + lbo_ + 1, [(rl, {'kind': 'contract', 'fn': fid, 'tmpl_line': 0})]))
        loops = None
        rets = None
        for (kind, nn), sl in secs.items():
            if kind in ('sig', 'attr', 'site'):
                continue
            if kind == 'loop-returns':
                # before every `return` lexically inside loop nn: an early way out of the loop has to justify itself
                if loops is None:
                    loops = rx.find_loops(body)
                if rets is None:
                    rets = rx.find_returns(body)
                if nn is None or nn < 1 or nn > len(loops):
                    raise Undecided('lost anchor: %s loop %s (function has %d loops)' % (fid, nn, len(loops)))
                kw, kpos, lbo, lend = loops[nn - 1]
                for rp in rets:
                    if lbo < rp < lend:
                        inserts.append((bo + rp, block_lines(sl)))
                continue
            if kind == 'loop-back-edges':
                # before every way back to the head of loop nn: each `continue` that belongs to it (not to a nested loop) and the end of its body
                if loops is None:
                    loops = rx.find_loops(body)
                if nn is None or nn < 1 or nn > len(loops):
                    raise Undecided('lost anchor: %s loop %s (function has %d loops)' % (fid, nn, len(loops)))
                kw, kpos, lbo, lend = loops[nn - 1]
                nested = [(l[2], l[3]) for l in loops if lbo < l[2] and l[3] < lend]
                for cp in rx.find_keyword(body, 'continue'):
                    if lbo < cp < lend and not any(a < cp < b for a, b in nested):
                        inserts.append((bo + cp, block_lines(sl)))
                inserts.append((bo + lend - 1, block_lines(sl)))
                continue
            if kind in ('opt-loop', 'opt-loop-start'):
                # invariants for a loop that a repair introduced: on a tree without that loop there is nothing to annotate, and the obligation the
                # loop serves (stated elsewhere in the function) then fails by itself instead of the anchor being reported lost
                if loops is None:
                    loops = rx.find_loops(body)
                if nn is None or nn < 1 or nn > len(loops):
                    continue
                kind = kind[4:]
            if kind in ('loop', 'before-loop', 'loop-start', 'loop-end'):
                if loops is None:
                    loops = rx.find_loops(body)
                if nn is None or nn < 1 or nn > len(loops):
                    raise Undecided('lost anchor: %s loop %s (function has %d loops)' % (fid, nn, len(loops)))
                kw, kpos, lbo, lend = loops[nn - 1]
                if kind == 'loop':
                    inserts.append((bo + lbo, block_lines(sl)))
                elif kind == 'before-loop':
                    # start of the statement containing the loop keyword: the keyword itself (labels excluded)
                    inserts.append((bo + kpos, block_lines(sl)))
                elif kind == 'loop-start':
                    inserts.append((bo + lbo + 1, block_lines(sl)))
                else:
                    inserts.append((bo + lend - 1, block_lines(sl)))
            elif kind == 'body-start':
                inserts.append((bo + 1, block_lines(sl)))
            elif kind == 'body-end':
                inserts.append((len(text) - 1, block_lines(sl)))
            elif kind == 'before-return':
                if rets is None:
                    rets = rx.find_returns(body)
                if nn is None or nn < 1 or nn > len(rets):
                    raise Undecided('lost anchor: %s return %s (function has %d)' % (fid, nn, len(rets)))
                inserts.append((bo + rets[nn - 1], block_lines(sl)))
            elif kind == 'closure':
                # R15: the n-th zero-argument closure `|| EXPR` (up to the `;` ending its statement) gets a named result and the
                # woven ensures: `|| -> (e: T) ensures .. { EXPR }`; first contract line = result type
                toks = list(rx.sig_tokens(body))
                occ = []
                for k in range(1, len(toks) - 1):
                    a, b2 = toks[k], toks[k + 1]
                    if body[a[1]] == '|' and body[b2[1]] == '|' and b2[1] == a[2]:
                        pv = body[toks[k - 1][1]:toks[k - 1][2]]
                        if pv in ('=', '(', ',', '{', ';', 'move', 'return'):
                            occ.append(b2[2])
                if not isinstance(nn, int) or nn < 1 or nn > len(occ):
                    raise Undecided('lost anchor: %s closure %s (function has %d zero-argument closures)' % (fid, nn, len(occ)))
                start_c = occ[nn - 1]
                # end of the closure expression: `;` at depth 0
                i2 = start_c
                endc = None
                while True:
                    t = next(rx.sig_tokens(body, i2), None)
                    if t is None:
                        break
                    if body[t[1]] in '([{' and t[0] == 'punct':
                        i2 = rx.match_close(body, t[1])
                        continue
                    if body[t[1]] == ';' and t[0] == 'punct':
                        endc = t[1]
                        break
                    i2 = t[2]
                if endc is None:
                    raise Undecided('lost anchor: %s closure %s has no terminating `;`' % (fid, nn))
                ls = block_lines(sl)
                rtype = ls[0][0].strip()
                org = {'kind': 'rewrite', 'rule': 'R15', 'fn': fid}
                inserts.append((bo + start_c, [(' -> (e: %s)' % rtype, org)] + ls[1:] + [('{', org)]))
                inserts.append((bo + endc, [('}', org)]))
                out.count('R15', 1)
            elif kind == 'closure-at':
                # R15 for closures with parameters: line 1 = closure header text as it stands in the source (up to `{`),
                # line 2 = the same header with parameter types and a named result, following lines = woven ensures
                for sec_ in sl:
                    ls_ = sec_['lines']
                    key = ls_[0][1].strip()
                    occ = [m.start() for m in re.finditer(re.escape(key), body)]
                    if len(occ) != 1:
                        raise Undecided('lost anchor: %s closure header %r (%d occurrences)' % (fid, key, len(occ)))
                    org = {'kind': 'rewrite', 'rule': 'R15', 'fn': fid}
                    if not key.endswith('{'):
                        raise Undecided('template error: closure-at anchor must end with `{`')
                    edits.append((bo + occ[0], bo + occ[0] + len(key) - 1, ls_[1][1].strip() + ' '))
                    inserts.append((bo + occ[0] + len(key) - 1, [(t, {'kind': 'contract', 'fn': fid, 'tmpl_line': ln}) for ln, t in ls_[2:]]))
                    out.count('R15', 1)
            elif kind == 'nested':
                # contract of a fn item nested in the body: `fn <name>(..) -> T {`
                m = re.search(r'\bfn\s+%s\b' % re.escape(str(nn)), body)
                if not m:
                    raise Undecided('lost anchor: nested fn %s in %s' % (nn, fid))
                sub = body[m.start():]
                nbo, nret, nwhere = rx.fn_signature_parts(sub)
                if nret is not None and 'R5' in self.rules:
                    rb, re_ = nret
                    rts = sub[rb:re_].strip()
                    edits.append((bo + m.start() + rb, bo + m.start() + re_, ' (r: %s) ' % rts))
                    out.count('R5', 1)
                inserts.append((bo + m.start() + nbo, block_lines(sl)))
            elif kind == 'before-text':
                # structural anchors preferred; this one keys on the n-th occurrence of the first line's text
                for sec_ in sl:
                    key = sec_['lines'][0][1].strip()
                    occ = [m.start() for m in re.finditer(re.escape(key), body)]
                    k = (nn or 1) - 1
                    if k >= len(occ):
                        raise Undecided('lost anchor: %s text %r' % (fid, key))
                    ls = [(t, {'kind': 'contract', 'fn': fid, 'tmpl_line': ln}) for ln, t in sec_['lines'][1:]]
                    inserts.append((bo + occ[k], ls))
            else:
                raise Undecided('template error: unknown section %s' % kind)
        # attrs
        attrs = [a for a in it.attrs if not DROP_ATTRS.match(a)]
        if opts.get('features') == 'on':
            # a function of the default feature set: verified as compiled by default (the single-file verifier run knows no cargo features)
            attrs = [a for a in attrs if not re.match(r'#\[\s*cfg\(\s*feature\b', a)]
        for a in attrs:
            out.emit(a, {'kind': 'src', 'file': rel, 'line': src_line})
        for s in secs.get(('attr', None), []):
            for ln, t in s['lines']:
                out.emit(t, {'kind': 'contract', 'fn': fid, 'tmpl_line': ln})
        start = len(out.lines) + 1
        # apply edits (R5) and inserts: do inserts by offset in original text; edits do not change newlines
        inserts.sort(key=lambda x: x[0])
        pos = 0
        pieces = []
        for off, ls in inserts:
            pieces.append(('src', pos, off))
            pieces.append(('ins', ls))
            pos = off
        pieces.append(('src', pos, len(text)))
        for p in pieces:
            if p[0] == 'src':
                b, e = p[1], p[2]
                seg = text[b:e]
                # apply R5 edit if inside this segment
                for eb, ee, rep in sorted(edits, key=lambda x: -x[0]):
                    if b <= eb and ee <= e:
                        seg = seg[:eb - b] + rep + seg[ee - b:]
                line0 = src_line + text.count('\n', 0, b)
                if seg.strip() == '' and seg.count('\n') == 0:
                    continue
                seg_lines = seg.split('\n')
                # drop a leading empty fragment when the previous piece ended a line
                for k, ln in enumerate(seg_lines):
                    if ln.strip() == '' and (k == 0 or k == len(seg_lines) - 1):
                        continue
                    out.lines.append(ln)
                    out.origin.append({'kind': 'src', 'file': rel, 'line': line0 + k, 'fn': fid})
            else:
                for t, org in p[1]:
                    out.lines.append(t)
                    out.origin.append(org)
        end = len(out.lines)
        props = opts.get('props', ','.join(self.serves)).split(',')
        sites = []
        for sec in secs.get(('site', None), []) + [x for (k2, n2), v in secs.items() if k2 == 'site' and n2 is not None for x in v]:
            for ln, t in sec['lines']:
                m = re.match(r'\s*(\d+)\s+(=?)(.*?)\s+props=(\S+)\s*$', t)
                if m:
                    sites.append({'n': int(m.group(1)), 'exact': m.group(2) == '=', 'text': m.group(3).strip(), 'props': m.group(4).split(',')})
        out.fns.append({'id': fid, 'start': start, 'end': end, 'props': props, 'contracted': has_sig or default,
                        'imported': getattr(self, 'cur_imported', False), 'safety': opts.get('safety', '').split(',') if opts.get('safety') else None,
                        'sites': sites,
                        'default': default, 'file': rel, 'src_line': src_line,
                        'diverges': (ret is not None and text[ret[0]:ret[1]].strip() == '!') or not has_body})
        out.raw_extract.append((fid, raw, text))


def add_canary(sig_lines, fid):
    """append `false` to the ensures list of a woven signature block (or add an ensures clause)"""
    org = {'kind': 'canary', 'fn': fid}
    last_ens = None
    stop = None
    for k, (t, o) in enumerate(sig_lines):
        w = t.strip().split()[0] if t.strip() else ''
        if w == 'ensures':
            last_ens = k
            stop = None
        elif last_ens is not None and stop is None and w in ('decreases', 'opens_invariants', 'no_unwind', 'returns', 'via'):
            stop = k
    if last_ens is None:
        # before a trailing decreases etc.
        k0 = len(sig_lines)
        for k, (t, o) in enumerate(sig_lines):
            w = t.strip().split()[0] if t.strip() else ''
            if w in ('decreases', 'opens_invariants', 'no_unwind', 'returns', 'via'):
                k0 = k
                break
        fixed = list(sig_lines[:k0])
        fixed = _ensure_comma(fixed)
        return fixed + [('        ensures false, // [canary]', org)] + list(sig_lines[k0:])
    k0 = stop if stop is not None else len(sig_lines)
    head = _ensure_comma(list(sig_lines[:k0]))
    return head + [('            false, // [canary]', org)] + list(sig_lines[k0:])


def _ensure_comma(lines):
    for k in range(len(lines) - 1, -1, -1):
        t, o = lines[k]
        code = t.split('//')[0].rstrip()
        if not code.strip():
            continue
        if not code.endswith(','):
            cm = t[len(t.split('//')[0]):]
            lines[k] = (code + ', ' + cm, o)
        break
    return lines


def call_rounds(out):
    """partition contracted fns into rounds such that no fn in a round (syntactically) calls another in it"""
    fns = [f for f in out.fns if f['contracted'] and not f['diverges'] and not f.get('imported')]
    bodies = {}
    for f in fns:
        bodies[f['id']] = '\n'.join(out.lines[f['start'] - 1:f['end']])
    calls = {f['id']: set() for f in fns}
    for f in fns:
        for g in fns:
            if g['id'] == f['id']:
                continue
            nm = g['id'].split('::')[-1]
            if re.search(r'\b%s\s*(::<[^>]*>)?\s*\(' % re.escape(nm), bodies[f['id']].split('{', 1)[-1]):
                calls[f['id']].add(g['id'])
    rounds = []
    for f in fns:
        placed = False
        for r in rounds:
            if not any((g in calls[f['id']] or f['id'] in calls[g]) for g in r):
                r.add(f['id'])
                placed = True
                break
        if not placed:
            rounds.append({f['id']})
    return rounds


# --------------------------------------------------------------------------------------
def run_verus(path, extra_args, tag, multiple_errors=40):
    cmd = [VERUS, path, '--output-json', '--time-expanded', '--error-format=json', '--multiple-errors', str(multiple_errors), '--triggers-mode', 'silent',
           '--edition=2018'] + extra_args
    t0 = time.time()
    try:
        p = subprocess.run(cmd, capture_output=True, text=True, timeout=VERUS_TIMEOUT, cwd=BUILD)
    except subprocess.TimeoutExpired:
        raise Undecided('verus timeout on %s' % tag)
    wall = time.time() - t0
    try:
        js = json.loads(p.stdout) if p.stdout.strip().startswith('{') else None
    except Exception:
        js = None
    diags = []
    raw_err = []
    for l in p.stderr.split('\n'):
        l = l.strip()
        if l.startswith('{'):
            try:
                diags.append(json.loads(l))
            except Exception:
                raw_err.append(l)
        elif l:
            raw_err.append(l)
    return {'cmd': ' '.join(cmd), 'rc': p.returncode, 'json': js, 'diags': diags, 'raw_err': raw_err, 'wall': wall, 'path': path}


def classify(msg):
    m = msg.lower().replace('post-condition', 'postcondition').replace('pre-condition', 'precondition')
    if 'loop ensures' in m:
        return 'invariant'
    if 'postcondition' in m:
        return 'postcondition'
    if 'precondition' in m or 'fails to satisfy' in m:
        return 'precondition'
    if 'invariant' in m:
        return 'invariant'
    if 'overflow' in m or 'underflow' in m:
        return 'overflow'
    if 'unreachable' in m or 'panic' in m:
        return 'panic'
    if 'assert' in m:
        return 'assert'
    if 'decreases' in m or 'termination' in m:
        return 'termination'
    if 'rlimit' in m or 'resource limit' in m or 'timeout' in m:
        return 'rlimit'
    if 'index' in m or 'bounds' in m:
        return 'bounds'
    if 'division' in m or 'divide' in m:
        return 'division'
    return 'other'


def label_of(out, line):
    """label of the contract clause an assembled-file line belongs to: a [..] on that line, or on a line above that is part of the same
    clause (a line whose code part ends with `,` closes a clause: labels above it belong to other clauses and are NOT inherited - an
    unlabelled clause is attributed to every property of its function instead)"""
    k = line - 1
    fn = out.origin[k].get('fn')
    while k >= 0 and out.origin[k].get('kind') in ('contract', 'canary') and out.origin[k].get('fn') == fn:
        m = LABEL_RE.search(out.lines[k])
        if m:
            return m.group(1).strip()
        if k == 0:
            break
        above = out.lines[k - 1].split('//')[0].rstrip()
        if above.endswith(',') or re.search(r'\b(requires|ensures|invariant|decreases)\s*$', above):
            break
        k -= 1
    return None


def fn_at(out, line):
    for f in out.fns:
        if f['start'] <= line <= f['end']:
            return f
    return None


def analyse(out, res, unit):
    """turn verus diagnostics into a list of failures: dict(fn, key, props, kind, message, spans, src)"""
    fails = []
    undecided = []
    if res['json'] is None:
        undecided.append('verus produced no JSON result: ' + ' | '.join(res['raw_err'][:5]))
        return fails, undecided
    vr = res['json'].get('verification-results', {})
    hard = []
    if 'verified' not in vr or vr.get('encountered-vir-error'):
        msgs = [d.get('message', '') for d in res['diags'] if d.get('level') == 'error' and not d.get('message', '').startswith('aborting')]
        undecided.append('verus rejected the assembled file (unsupported construct / type error): ' + ' | '.join(msgs[:4] or res['raw_err'][:4]))
        return fails, undecided
    for d in res['diags']:
        if d.get('level') == 'note' and d.get('message', '').startswith('diagnostics via expansion') and fails:
            # --expand-errors: spans of the failing conjuncts inside the clause reported by the preceding error: refine the label
            labs = []
            for sp in d.get('spans', []):
                ln = sp.get('line_end', sp['line_start'])
                if ln - 1 >= len(out.origin) or out.origin[ln - 1].get('kind') != 'contract':
                    continue
                fnid = out.origin[ln - 1].get('fn')
                k = ln - 1
                while k < len(out.lines) and out.origin[k].get('kind') == 'contract' and out.origin[k].get('fn') == fnid:
                    m = LABEL_RE.search(out.lines[k])
                    if m:
                        if m.group(1).strip() not in labs:
                            labs.append(m.group(1).strip())
                        break
                    k += 1
            last = fails[-1]
            if labs and last.get('label') and not last.get('refined'):
                first = True
                base = dict(last)
                for lb in labs:
                    tgt = last if first else dict(base)
                    ids = re.findall(r'C\d{2,3}', lb)
                    tgt['label'] = lb
                    tgt['props'] = ids or base['props']
                    tgt['key'] = '[%s]' % lb + (base['key'][base['key'].index(']') + 1:] if ']' in base['key'] else '')
                    tgt['refined'] = True
                    if not first:
                        fails.append(tgt)
                    first = False
            continue
        if d.get('level') != 'error':
            continue
        msg = d.get('message', '')
        if msg.startswith('aborting due to'):
            continue
        ours = os.path.basename(res.get('path', ''))
        spans = []
        for sp in d.get('spans', []):
            cur = sp
            # spans inside macro expansions (unreachable!, assert!, ...) point into core: walk out to the call site in our file
            while cur is not None and os.path.basename(cur.get('file_name', '')) != ours:
                ex = cur.get('expansion')
                cur = ex.get('span') if ex else None
            if cur is not None:
                cur = dict(cur)
                cur['is_primary'] = sp.get('is_primary')
                cur['label'] = sp.get('label')
                spans.append(cur)
        prim = [s for s in spans if s.get('is_primary')] or spans
        kind = classify(msg)
        if spans and kind == 'precondition' and len(spans) < len(d.get('spans', [])):
            # the violated precondition lives in vstd (panic / unreachable / unwrap / expect / index): a reachable panic site
            ptxt = out.lines[prim[0]['line_start'] - 1] if prim and prim[0]['line_start'] - 1 < len(out.lines) else ''
            if re.search(r'\b(unreachable|panic|assert|debug_assert)!|\.unwrap\(\)|\.expect\(', ptxt):
                kind = 'panic'
        if not spans:
            hard.append(msg)
            continue
        # a diagnostic is a verification failure iff verus says so through its message vocabulary
        pl = prim[0]['line_start']
        f = fn_at(out, pl)
        # postcondition / invariant failures: primary span is the clause (inside the function's woven contract);
        # precondition failures: primary span is the call site in the caller - the caller is the function that fails
        if f is None:
            for s in spans:
                f = fn_at(out, s['line_start'])
                if f:
                    break
        if kind == 'other':
            hard.append(msg)
            continue
        if f is not None and f.get('default') and kind == 'precondition':
            # a function that only carries its type's default contract (e.g. a helper added by a refactoring) cannot establish a
            # callee's precondition because nothing states its own: undecided, not a violation
            undecided.append('@props=%s@ %s carries only the default contract of its type; precondition of a callee not established: %s' % (','.join(f['props']), f['id'], msg))
            continue
        if kind == 'rlimit':
            undecided.append('%s: %s' % (f['id'] if f else '?', msg))
            continue
        weak_callees = []
        if f is not None and not f.get('default'):
            # a function that calls one which only carries its type's default contract (a method added by a change: nothing states what it
            # keeps) loses every fact across that call; what then fails in the CALLER is undecided, not a violation - the new method's own
            # default obligations (it must not drop queued bytes, change the throttling state, ...) are still checked in its own body
            body_txt = '\n'.join(out.lines[k] for k in range(f['start'] - 1, min(f['end'], len(out.lines))) if out.origin[k].get('kind') == 'src')
            weak_callees = [d_['id'] for d_ in out.fns if d_.get('default') and d_ is not f and re.search(r'\b%s\s*\(' % re.escape(d_['id'].split('::')[-1]), body_txt)]
        # precondition failure: primary span = call site, secondary = the callee's requires clause
        # postcondition failure: primary span = ensures clause, secondary = exit
        label = None
        site = None
        for s in spans:
            o = out.origin[s['line_start'] - 1] if s['line_start'] - 1 < len(out.origin) else {}
            if o.get('kind') in ('contract', 'canary') and label is None:
                lb = None
                for ln in range(s.get('line_end', s['line_start']), s['line_start'] - 1, -1):
                    m = LABEL_RE.search(out.lines[ln - 1]) if ln - 1 < len(out.lines) else None
                    if m:
                        lb = m.group(1).strip()
                        break
                if lb is None:
                    lb = label_of(out, s['line_start'])
                if lb:
                    label = lb
            if o.get('kind') in ('prelude', 'tmpl') and label is None:
                # a clause of a boundary mirror that names the property it stands for (a label on the clause's own lines, nothing inherited)
                for ln in range(s['line_start'], s.get('line_end', s['line_start']) + 1):
                    m = LABEL_RE.search(out.lines[ln - 1]) if ln - 1 < len(out.lines) else None
                    if m:
                        label = m.group(1).strip()
                        break
            if o.get('kind') == 'src' and site is None:
                site = (o['file'], o['line'], out.lines[s['line_start'] - 1].strip())
        props = None
        key = None
        if label:
            ids = re.findall(r'C\d{2,3}', label)
            lname = label
            props = ids or (f['props'] if f else unit.serves)
            key = '[%s]' % lname
            if kind in ('postcondition', 'invariant') and site:
                key += '@' + rx.norm_ws(site[2])[:80]
        else:
            props = f['props'] if f else unit.serves
            if f and kind in ('overflow', 'panic', 'assert', 'bounds', 'division') and f.get('safety'):
                props = f['safety']
            if kind in ('overflow', 'panic', 'assert', 'bounds', 'division', 'precondition') and unit.no_panic:
                props = list(props) + [x for x in unit.no_panic if x not in props]
            if f and f.get('sites'):
                # which occurrence of the call-site text is the failing line?
                done_ = False
                for sp in [pl] + [x['line_start'] for x in spans]:
                    if done_ or sp - 1 >= len(out.lines) or not (f['start'] <= sp <= f['end']):
                        continue
                    ltxt = out.lines[sp - 1].strip()
                    for st_ in f['sites']:
                        hit = (ltxt == st_['text']) if st_['exact'] else (st_['text'] in ltxt)
                        if not hit:
                            continue
                        occ = 0
                        for k in range(f['start'] - 1, sp):
                            if out.origin[k].get('kind') != 'src':
                                continue
                            lt = out.lines[k].strip()
                            if (lt == st_['text']) if st_['exact'] else (st_['text'] in lt):
                                occ += 1
                        if occ == st_['n']:
                            props = st_['props']
                            done_ = True
                            break
            txt = rx.norm_ws(site[2])[:100] if site else rx.norm_ws(out.lines[pl - 1])[:100]
            key = '%s@%s' % (kind, txt)
        if weak_callees:
            # (reported for every property the failing clause or the function bears on, so that each of them runs its scenario library)
            undecided.append('@props=%s@ %s calls %s, which carries only the default contract of its type: %s %s' % (','.join(props), f['id'], ', '.join(weak_callees), key, msg))
            continue
        fails.append({'unit': unit.name, 'fn': f['id'] if f else None, 'key': key, 'props': props, 'kind': kind,
                      'message': msg, 'label': label,
                      'spans': [{'line': s['line_start'], 'text': out.lines[s['line_start'] - 1].strip() if s['line_start'] - 1 < len(out.lines) else '',
                                 'label': s.get('label'), 'origin': out.origin[s['line_start'] - 1] if s['line_start'] - 1 < len(out.origin) else None} for s in spans],
                      'src': {'file': site[0], 'line': site[1], 'text': site[2]} if site else None,
                      'rendered': d.get('rendered', '')})
    if hard:
        undecided.append('verus rejected the assembled file (unsupported construct / type error): ' + ' | '.join(hard[:4]))
    return fails, undecided


def breakdown(res):
    out = []
    try:
        for m in res['json']['times-ms']['smt']['smt-run-module-times']:
            for f in m.get('function-breakdown', []):
                out.append(f)
    except Exception:
        pass
    return out


def count_obligations(out):
    """obligations = woven contract clauses (ensures / invariant / assert lines, by label or clause) + one
    body-safety obligation (no panic, no overflow, callee preconditions) per extracted function"""
    obs = []
    for f in out.fns:
        obs.append({'fn': f['id'], 'ob': 'body-safety', 'props': f['props']})
        seen = set()
        mode = None
        for k in range(f['start'] - 1, f['end']):
            o = out.origin[k]
            if o.get('kind') != 'contract':
                continue
            t = out.lines[k].strip()
            w = t.split()[0] if t.split() else ''
            if w in ('requires', 'ensures', 'invariant', 'decreases', 'recommends', 'invariant_except_break'):
                mode = w
            if mode in ('ensures', 'invariant', 'decreases') or w.startswith('assert'):
                m = LABEL_RE.search(t)
                if m and m.group(1) not in seen:
                    seen.add(m.group(1))
                    ids = re.findall(r'C\d{2,3}', m.group(1))
                    obs.append({'fn': f['id'], 'ob': '[%s]' % m.group(1), 'props': ids or f['props']})
    return obs


def scan_trusted(out):
    tb = {}
    pat = re.compile(r'\b(assume_specification|external_body|external_type_specification|external_fn_specification|admit\s*\(|assume\s*\(|uninterp|axiom|external\b|exec_allows_no_decreases_clause)')
    for k, ln in enumerate(out.lines):
        code = ln.split('//')[0]
        for m in pat.finditer(code):
            w = m.group(1).rstrip('(').strip()
            tb.setdefault(w, []).append(k + 1)
    return tb


def run_unit(name, canary=True, keep=False):
    """assemble + verify one unit. returns result dict (never raises Undecided: records it)"""
    t0 = time.time()
    r = {'unit': name, 'undecided': [], 'fails': [], 'obligations': [], 'functions': [], 'trusted': {}, 'wall': 0,
         'rules': {}, 'serves': [], 'canary': None, 'cmd': '', 'smt_ms': 0}
    try:
        u = Unit(name)
        out = u.assemble(canary=False)
        os.makedirs(BUILD, exist_ok=True)
        path = os.path.join(BUILD, 'u_%s.rs' % name)
        open(path, 'w').write(out.text())
        json.dump({'origin': out.origin, 'fns': out.fns}, open(os.path.join(BUILD, 'u_%s.map.json' % name), 'w'))
        # audit diff raw extract -> verified text
        with open(os.path.join(BUILD, 'u_%s.extract.diff' % name), 'w') as fh:
            for fid, raw, new in out.raw_extract:
                if raw != new:
                    fh.write(''.join(difflib.unified_diff(raw.splitlines(True), new.splitlines(True), 'repo:' + fid, 'verified:' + fid)))
                    fh.write('\n')
        r['serves'] = u.serves
        r['rules'] = out.rule_counts
        r['path'] = path
        with ThreadPoolExecutor(8) as ex:
            fut = ex.submit(run_verus, path, u.verus_args, name)
            futc = []
            if canary:
                for k, rnd in enumerate(call_rounds(out)):
                    uc = Unit(name)
                    outc = uc.assemble(canary=frozenset(rnd))
                    pathc = os.path.join(BUILD, 'u_%s_canary%d.rs' % (name, k))
                    open(pathc, 'w').write(outc.text())
                    futc.append((rnd, uc, outc, ex.submit(run_verus, pathc, uc.verus_args, '%s-canary%d' % (name, k), 1)))
            res = fut.result()
            resc = [(rnd, uc, outc, f.result()) for rnd, uc, outc, f in futc]
        r['cmd'] = res['cmd']
        fails, und = analyse(out, res, u)
        if fails and not und and os.environ.get('VERIF_NO_EXPAND') != '1':
            # second pass only when something failed: --expand-errors names the failing conjunct inside a multi-part clause
            res2 = run_verus(path, u.verus_args + ['--expand-errors'], name + '-expand', 12)
            f2, u2 = analyse(out, res2, u)
            if f2 and not u2:
                fails = f2
        r['fails'] = fails
        r['undecided'] += und
        r['obligations'] = count_obligations(out)
        bd = breakdown(res)
        r['functions'] = [{'function': f['function'], 'time_us': f.get('time-micros'), 'rlimit': f.get('rlimit'), 'success': f.get('success')} for f in bd]
        try:
            r['smt_ms'] = res['json']['times-ms']['smt']['smt-run']
            r['verified'] = res['json']['verification-results']['verified']
            r['errors'] = res['json']['verification-results']['errors']
        except Exception:
            pass
        r['fns'] = [{k: f[k] for k in ('id', 'props', 'contracted', 'default', 'file', 'src_line')} for f in out.fns]
        r['trusted'] = scan_trusted(out)
        # sanity: verus reported failure but we attributed nothing
        if res['json'] is not None and not res['json']['verification-results'].get('success') and not fails and not r['undecided']:
            r['undecided'].append('verus reported errors that could not be attributed: ' + ' | '.join(res['raw_err'][:3]))
        if canary:
            want, missing, cund = [], [], []
            for rnd, uc, outc, rc_ in resc:
                cf, cu = analyse(outc, rc_, uc)
                cund += cu
                hit = set()
                for d in rc_['diags']:
                    for sp in d.get('spans', []):
                        f = fn_at(outc, sp['line_start'])
                        if f:
                            hit.add(f['id'])
                want += sorted(rnd)
                missing += [w for w in sorted(rnd) if w not in hit]
            r['canary'] = {'contracted': len(want), 'failing_as_expected': len(want) - len(missing), 'vacuous': missing,
                           'rounds': len(resc)}
            if cund:
                if not und:
                    r['undecided'].append('canary run undecided: ' + '; '.join(cund[:2]))
            elif missing:
                r['undecided'].append('canary: `ensures false` verified for %s (contradictory precondition or prelude)' % ', '.join(missing))
        if not out.fns:
            r['undecided'].append('vacuity: unit extracted no function')
    except Undecided as e:
        r['undecided'].append(str(e))
    except rx.LexError as e:
        r['undecided'].append('lexer: %s' % e)
    r['wall'] = time.time() - t0
    return r


# --------------------------------------------------------------------------------------
def unit_imports(name, seen=None):
    seen = seen if seen is not None else set()
    p = os.path.join(UNITS, name, 'unit.vrs')
    if not os.path.exists(p):
        return seen
    for ln in open(p):
        if ln.startswith('//@import '):
            o = ln.split()[1]
            if o not in seen:
                seen.add(o)
                unit_imports(o, seen)
    return seen


def units_for(prop):
    us = _units_serving(prop)
    # a unit that imports another re-verifies the imported functions: do not run the imported unit twice
    covered = set()
    for u in us:
        covered |= unit_imports(u)
    return [u for u in us if u not in covered]


def _units_serving(prop):
    us = []
    for d in sorted(os.listdir(UNITS)):
        p = os.path.join(UNITS, d, 'unit.vrs')
        if not os.path.exists(p):
            continue
        for ln in open(p):
            if ln.startswith('//@serves'):
                if prop in ln.split()[1:]:
                    us.append(d)
                break
    return us


def load_known():
    p = os.path.join(ROOT, 'known_findings.json')
    if not os.path.exists(p):
        return []
    return json.load(open(p)).get('findings', [])


def match_known(f, prop, known):
    for k in known:
        if k.get('status') != 'open' or k['property'] != prop:
            continue
        if k.get('unit') == f['unit'] and k.get('fn') == f['fn'] and k.get('obligation') == f['key']:
            return k
    return None


def check(prop, tier):
    t0 = time.time()
    seed = int(os.environ.get('VERIF_SEED', '0') or 0)
    units = units_for(prop)
    if not units:
        print('no unit serves %s' % prop)
        return 2
    with ThreadPoolExecutor(max(1, min(8, len(units)))) as ex:
        results = list(ex.map(lambda n: run_unit(n, canary=True), units))
    known = load_known()
    undecided = []
    violations = []
    knowns = []
    obligations = []
    for r in results:
        for u in r['undecided']:
            m = re.match(r'@props=([^@]*)@ (.*)', u, re.S)
            if m:
                if prop not in m.group(1).split(','):
                    continue   # concerns a function that does not bear on this property
                u = m.group(2)
            undecided.append('%s: %s' % (r['unit'], u))
        for f in r['fails']:
            if prop in f['props']:
                k = match_known(f, prop, known)
                if k:
                    knowns.append((k, f))
                else:
                    violations.append(f)
        for o in r['obligations']:
            if prop in o['props']:
                obligations.append(dict(o, unit=r['unit']))
    # units import each other's exports: the same function / obligation may appear in several units - count and report once
    seen_ob = set()
    uniq = []
    for o in obligations:
        k = (o['fn'], o['ob'])
        if k not in seen_ob:
            seen_ob.add(k)
            uniq.append(o)
    obligations = uniq
    seen_v = set()
    uv = []
    for f in violations:
        k = (f['fn'], f['key'])
        if k not in seen_v:
            seen_v.add(k)
            uv.append(f)
    violations = uv
    failed_keys = set()
    for r in results:
        for f in r['fails']:
            if prop in f['props']:
                failed_keys.add((f['fn'], f['label'] and '[%s]' % f['label'] or 'body-safety'))
    n_ob = len(obligations)
    n_dis = len([o for o in obligations if (o['fn'], o['ob']) not in failed_keys])
    extra = run_extra(prop, tier, results)
    for e in extra:
        undecided += e.get('undecided', [])
        violations += e.get('violations', [])
        n_ob += e.get('obligations', 0)
        n_dis += e.get('discharged', 0)
    rc = 0
    replay_paths = []
    os.makedirs(os.path.join(OUTROOT, 'replays'), exist_ok=True)
    # concrete scenarios on the real code: counterexample search when an obligation failed, bounded stand-in when undecided
    wit = None
    # (a violation that already comes from a bounded scenario carries its concrete failing input: no second search)
    if (violations and not all(v.get('kind') == 'bounded-scenario' for v in violations)) or (undecided and not violations):
        try:
            import witness as _w
            wit = _w.run([prop])
        except Exception as e:
            wit = {'inconclusive': 'witness runner failed: %s' % e, 'failed': [], 'ran': 0, 'passed': 0, 'files': []}
        if not violations and wit.get('failed'):
            # undecided deductively, but a concrete scenario fails on the real code: a violation with a replayable input
            violations.append({'unit': 'witness', 'fn': None, 'key': 'bounded:' + wit['failed'][0]['test'], 'kind': 'bounded-scenario',
                               'message': 'deductive check undecided (%s); concrete scenario fails on the real code' % (undecided[0][:160] if undecided else ''),
                               'label': None, 'props': [prop], 'spans': [], 'src': None, 'rendered': wit['failed'][0]['output']})
    for k, f in knowns:
        print('KNOWN-FINDING: property=%s %s (%s %s %s)' % (prop, k.get('what', ''), f['unit'], f['fn'], f['key']))
    seen_kf = set()
    for e in list(extra) + ([{'known_findings': [{'id': k['finding'].get('id'), 'what': k['finding'].get('what'), 'test': k['test']} for k in (wit or {}).get('known', [])]}] if wit else []):
        for kf_ in e.get('known_findings', []) or []:
            if kf_.get('id') not in seen_kf:
                seen_kf.add(kf_.get('id'))
                print('KNOWN-FINDING: property=%s %s (scenario %s)' % (prop, kf_.get('what', ''), kf_.get('test')))
    if violations:
        rc = 1
        for n, f in enumerate(violations):
            path = os.path.join(OUTROOT, 'replays', '%s-%s-%d.json' % (prop, time.strftime('%Y%m%dT%H%M%S'), n))
            witness = None
            if wit and wit.get('failed'):
                witness = {'kind': 'concrete scenario failing on the real code', 'tests': wit['failed'], 'cmd': wit['failed'][0]['cmd']}
            elif f.get('kind') == 'bounded-scenario':
                # the failing scenario is itself the concrete input, replayed on the real code
                scen = f.get('fn') if (f.get('fn') or '').endswith('.rs') else None
                witness = {'kind': 'concrete scenario failing on the real code', 'tests': [{'scenario': scen, 'test': (f.get('key') or '').replace('bounded:', ''), 'output': (f.get('rendered') or '')[:1500]}] if scen else [],
                           'cmd': 'tool/rundemo.sh %s' % scen if scen else 'tool/witness.py %s' % prop}
            json.dump({'property': prop, 'failed_obligation': f.get('key'), 'unit': f.get('unit'), 'function': f.get('fn'),
                       'kind': f.get('kind'), 'verifier_message': f.get('message'), 'source': f.get('src'),
                       'spans': f.get('spans'), 'verifier_output': f.get('rendered'), 'witness': witness,
                       'replay_cmd': witness.get('cmd') if witness else None}, open(path, 'w'), indent=1)
            replay_paths.append(path)
            tail = '' if witness else ' no-failing-input-found'
            print('  failed obligation %s in %s (%s): %s%s' % (f.get('key'), f.get('fn'), f.get('unit'), f.get('message'),
                                                            (' at %s:%s' % (f['src']['file'], f['src']['line'])) if f.get('src') else ''))
            print('VIOLATION property=%s replay=%s%s' % (prop, path, tail))
    elif undecided:
        rc = 2
        for u in undecided:
            print('UNDECIDED property=%s %s' % (prop, u))
    if wit is not None:
        extra = list(extra) + [{'name': 'witness-scenarios (bounded, not counted as proved)', 'files': wit.get('files'), 'ran': wit.get('ran'), 'passed': wit.get('passed'),
                                'failed': [x['test'] for x in wit.get('failed', [])], 'inconclusive': wit.get('inconclusive'), 'not_built_against_this_tree': wit.get('not_built'), 'backends': ['cargo-test (bounded)']}]
    write_evidence(prop, tier, seed, results, extra, obligations, n_ob, n_dis, violations, knowns, undecided, time.time() - t0)
    if rc == 0:
        print('OK property=%s obligations=%d discharged=%d units=%s wall=%.1fs' % (prop, n_ob, n_dis, ','.join(units), time.time() - t0))
    return rc


def run_extra(prop, tier, results):
    """hooks for Kani / syntactic checks / mutants, defined in tool/extra.py"""
    try:
        import extra
    except ImportError:
        return []
    return extra.run(prop, tier, results)


def find_witness(prop, f):
    try:
        import witness
    except ImportError:
        return None
    try:
        return witness.find(prop, f)
    except Exception as e:  # a witness search must never turn a verdict into a crash
        return None


def write_evidence(prop, tier, seed, results, extra, obligations, n_ob, n_dis, violations, knowns, undecided, wall):
    os.makedirs(os.path.join(OUTROOT, 'evidence'), exist_ok=True)
    trusted = []
    fns = []
    samples = []
    for r in results:
        for w, lines in sorted(r['trusted'].items()):
            trusted.append('%s: %d x %s in assembled unit (prelude / assumed contracts)' % (r['unit'], len(lines), w))
        for f in r.get('fns', []):
            if prop in f['props']:
                fns.append('%s (%s:%d)%s' % (f['id'], f['file'], f['src_line'], '' if f['contracted'] else ' [extracted, callee only]'))
    for o in obligations[:12]:
        samples.append('%s / %s / %s' % (o['unit'], o['fn'], o['ob']))
    for e in extra:
        samples += e.get('samples', [])
        trusted += e.get('trusted', [])
    assumptions = []
    ap = os.path.join(ROOT, 'assumptions', prop + '.txt')
    if os.path.exists(ap):
        assumptions = [l.strip() for l in open(ap) if l.strip()]
    common = os.path.join(ROOT, 'assumptions', 'common.txt')
    if os.path.exists(common):
        assumptions += [l.strip() for l in open(common) if l.strip()]
    ev = {
        'property_id': prop, 'tier': tier, 'seed': seed, 'level': 'proof',
        'coverage': {
            'obligations': n_ob, 'discharged': n_dis,
            'checker_cmd': '; '.join(r['cmd'] for r in results if r.get('cmd')),
            'trusted_base': trusted,
            'samples': samples,
            'functions_under_contract': fns,
            'units': [{'unit': r['unit'], 'verus_verified_fns': r.get('verified'), 'verus_errors': r.get('errors'), 'smt_ms': r.get('smt_ms'),
                       'wall_s': round(r['wall'], 2), 'rewrite_rule_applications': r['rules'], 'canary': r['canary'],
                       'per_function': sorted([f for f in r['functions'] if f.get('time_us', 0) and f['time_us'] > 2000], key=lambda x: -x['time_us'])[:25],
                       'extract_diff': 'build/u_%s.extract.diff' % r['unit'], 'undecided': r['undecided']} for r in results],
            'backends': ['verus-z3'] + sorted(set(b for e in extra for b in e.get('backends', []))),
            'extra_checks': [{k: v for k, v in e.items() if k not in ('violations',)} for e in extra],
            'known_findings_reported': ['%s %s' % (f['fn'], f['key']) for k, f in knowns],
            'undecided': undecided,
            'failed': ['%s %s %s' % (f.get('unit'), f.get('fn'), f.get('key')) for f in violations],
        },
        'assumptions': assumptions,
        'wall_s': round(wall, 2),
        'violations': len(violations),
    }
    json.dump(ev, open(os.path.join(OUTROOT, 'evidence', prop + '.json'), 'w'), indent=1)


def main(argv):
    if len(argv) < 2:
        print(__doc__)
        return 2
    cmd = argv[1]
    if cmd == 'check':
        prop = argv[2]
        tier = 'quick'
        if '--tier' in argv:
            tier = argv[argv.index('--tier') + 1]
        tier = os.environ.get('VERIF_TIER', tier) or tier
        return check(prop, tier)
    if cmd == 'assemble':
        u = Unit(argv[2])
        out = u.assemble(canary='--canary' in argv)
        os.makedirs(BUILD, exist_ok=True)
        p = os.path.join(BUILD, 'u_%s.rs' % argv[2])
        open(p, 'w').write(out.text())
        print(p)
        return 0
    if cmd == 'unit':
        r = run_unit(argv[2], canary='--no-canary' not in argv)
        for f in r['fails']:
            print('FAIL %s %s props=%s :: %s' % (f['fn'], f['key'], ','.join(f['props']), f['message']))
            if '-v' in argv:
                print(f['rendered'])
        for u in r['undecided']:
            print('UNDECIDED', u)
        print('unit %s: verified=%s errors=%s obligations=%d canary=%s wall=%.1fs rules=%s' % (
            r['unit'], r.get('verified'), r.get('errors'), len(r['obligations']), r['canary'], r['wall'], r['rules']))
        return 0 if not r['fails'] and not r['undecided'] else 1
    print(__doc__)
    return 2


if __name__ == '__main__':
    sys.exit(main(sys.argv))
