#!/bin/bash
# run an in-crate demonstration test against a scratch overlay of a repo tree
# usage: demo.sh <demo.rs> [repo dir (default /repo)]   -> exit code of cargo test
set -u
DEMO=$(readlink -f "$1"); SRC=${2:-/repo}
W=$(mktemp -d /tmp/verif-demo.XXXXXX)
trap 'rm -rf "$W"' EXIT
rsync -a --exclude target --exclude .git "$SRC"/ "$W"/
cp "$DEMO" "$W/src/verif_demo.rs"
HOST=$(sed -n 's,^//@host ,,p' "$DEMO" | head -1); HOST=${HOST:-src/lib.rs}
printf '\n#[cfg(test)]\n#[path = "%s/src/verif_demo.rs"]\nmod verif_demo;\n' "$W" >> "$W/$HOST"
mkdir -p /verif/.cache/demo-target
cd "$W" && CARGO_TARGET_DIR=/verif/.cache/demo-target CARGO_NET_OFFLINE=true cargo test --offline --lib verif_demo 2>&1 | tail -25
exit ${PIPESTATUS[0]}
