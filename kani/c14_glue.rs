//@host src/confirm.rs
//@harness verif_kani_confirm_glue
// C14 glue that Verus cannot parse (fn pointers): ConfirmSmoother::process / new_iter build an iterator whose first step behaves
// as the verified Iter::next does for {parent: self, payload, next: None, done: false, to_confirm: tag -> variant{tag, multiple:false}}.
// Full u64 x bool x {Ack,Nack} x expected; the stash is empty (loop-free); RandomState is stubbed (no getrandom model).
use super::*;

fn fixed_state() -> std::collections::hash_map::RandomState {
    unsafe { std::mem::transmute([0x0123_4567_89ab_cdefu64, 0xfedc_ba98_7654_3210u64]) }
}

#[kani::proof]
#[kani::stub(std::collections::hash_map::RandomState::new, fixed_state)]
#[kani::unwind(4)]
fn verif_kani_confirm_glue() {
    let expected: u64 = kani::any();
    let tag: u64 = kani::any();
    let multiple: bool = kani::any();
    let ack: bool = kani::any();
    kani::assume(expected < u64::max_value() && tag < u64::max_value());
    // the stash-insert branch (single confirmation ahead of `expected`) drags hashbrown's insert path into CBMC; the glue under
    // test (closure, payload, next/done initialisation) is the same on every branch, the branch itself is verified by Verus
    kani::assume(!(tag > expected && !multiple));
    let payload = ConfirmPayload { delivery_tag: tag, multiple };
    let raw = if ack { Confirm::Ack(payload) } else { Confirm::Nack(payload) };
    let mk = |t: u64| { let p = ConfirmPayload { delivery_tag: t, multiple: false }; if ack { Confirm::Ack(p) } else { Confirm::Nack(p) } };
    let mut s = ConfirmSmoother::with_expected_delivery_tag(expected);
    let first = {
        let mut it = s.process(raw);
        let f = it.next();
        std::mem::forget(it); // the Drop loop is verified by Verus; keep this harness loop-free
        f
    };
    if tag == expected {
        assert!(first == Some(mk(tag)));
        assert!(s.expected == expected + 1);
    } else if tag > expected && multiple {
        assert!(first == Some(mk(expected)));
        assert!(s.expected == expected + 1);
    } else {
        assert!(first.is_none());
        assert!(s.expected == expected);
    }
}
