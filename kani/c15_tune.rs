//@host src/connection_options.rs
//@harness verif_kani_make_tune_ok
// C15 (second opinion + concrete counterexamples): the real make_tune_ok over the full 2^96 domain of
// (client channel_max, frame_max, heartbeat) x (server channel_max, frame_max, heartbeat); loop-free, no unwinding bound.
use super::*;
use crate::Auth;

fn lim16(v: u16) -> u32 { if v == 0 { u16::max_value() as u32 } else { v as u32 } }
fn lim32(v: u32) -> u64 { if v == 0 { u32::max_value() as u64 } else { v as u64 } }

#[kani::proof]
fn verif_kani_make_tune_ok() {
    let options = ConnectionOptions::<Auth> {
        auth: Auth::External,
        virtual_host: String::new(),
        locale: String::new(),
        channel_max: kani::any(),
        frame_max: kani::any(),
        heartbeat: kani::any(),
        connection_timeout: None,
        information: None,
    };
    let tune = Tune { channel_max: kani::any(), frame_max: kani::any(), heartbeat: kani::any() };
    let (cm, fm, hb) = (tune.channel_max, tune.frame_max, tune.heartbeat);
    let want_cm = core::cmp::min(lim16(cm), lim16(options.channel_max));
    let want_fm = core::cmp::min(lim32(fm), lim32(options.frame_max));
    let want_hb = core::cmp::min(hb, options.heartbeat);
    match options.make_tune_ok(tune) {
        Ok(ok) => {
            assert!(want_fm >= 4096);
            assert!(ok.channel_max as u32 == want_cm);
            assert!(ok.frame_max as u64 == want_fm);
            assert!(ok.heartbeat == want_hb);
        }
        Err(Error::FrameMaxTooSmall { min, requested }) => {
            assert!(want_fm < 4096);
            assert!(min == 4096 && requested as u64 == want_fm);
        }
        Err(_) => assert!(false),
    }
}
