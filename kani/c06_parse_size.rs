//@host src/frame_buffer.rs
//@harness verif_kani_parse_size
// C06: the real AmqpFrameKind::parse_size (nom's be_u32 underneath, assumed by the Verus unit as `parse_long_uint`) on every
// buffer of up to 16 bytes: None below 7 bytes, otherwise big-endian bytes 3..7 plus 8. Loop-free on the bytes that matter.
use super::*;

#[kani::proof]
#[kani::unwind(6)]
fn verif_kani_parse_size() {
    let buf: [u8; 16] = kani::any();
    let len: usize = kani::any();
    kani::assume(len <= 16);
    let got = AmqpFrameKind::parse_size(&buf[..len]);
    if len < 7 {
        assert!(got.is_none());
    } else {
        let size = ((buf[3] as usize) << 24) | ((buf[4] as usize) << 16) | ((buf[5] as usize) << 8) | (buf[6] as usize);
        assert!(got == Some(size + 8));
    }
}
