#!/usr/bin/env python3
"""Generates units/api/unit.vrs: the expectation table for every public operation (C12), written from the AMQP
field meanings and the documentation of each call - not from the bodies.  Run after editing; the output is committed."""
import os
HERE = os.path.dirname(os.path.abspath(__file__))

HEADER = open(os.path.join(HERE, 'header.vrs')).read()

def S(x): return 'spec_into_string(%s)' % x
B = 'AMQPClass::Basic(AmqpBasic::%s)'
Q = 'AMQPClass::Queue(AmqpQueue::%s)'
X = 'AMQPClass::Exchange(AmqpExchange::%s)'
CF = 'AMQPClass::Confirm(AmqpConfirm::%s)'
QD = 'amq_protocol::protocol::queue::Declare'
QDel = 'amq_protocol::protocol::queue::Delete'

out = []
w = out.append


def fn_exact(name, emit, label, props='C12', recv='self', extra_req='', extra_ens='', kind='did'):
    """operation that must emit exactly `emit` (an ApiEmit expression) on channel `recv`"""
    w('//@fn %s props=%s' % (name, props))
    w('//@sig')
    w('        requires %s.only(%s),%s' % (recv, emit, (' ' + extra_req) if extra_req else ''))
    w('        ensures r is Ok ==> %s.did(%s), // [%s]' % (recv, emit, label))
    if extra_ens:
        w('            ' + extra_ens)
    w('//@end')


def fn_pred(name, pred, label, props='C12', recv='self', extra_req='', extra_ens=''):
    """operation whose emission is characterised by a predicate (fields built from fresh Strings are compared by content)"""
    w('//@fn %s props=%s' % (name, props))
    w('//@sig')
    w('        requires %s.only_if(|x: ApiEmit| %s),%s' % (recv, pred, (' ' + extra_req) if extra_req else ''))
    w('        ensures r is Ok ==> %s.did_some(|x: ApiEmit| %s), // [%s]' % (recv, pred, label))
    if extra_ens:
        w('            ' + extra_ens)
    w('//@end')


def call(c): return 'ApiEmit::Call(%s)' % c
def nowait(c): return 'ApiEmit::Nowait(%s)' % c


# ------------------------------------------------------------------------------------------------ channel.rs
w('pub mod channel {')
w('use vstd::prelude::*;')
w('use super::*;')
w('broadcast use {super::string_axioms::axiom_into_string_id, super::string_axioms::axiom_string_ext};')
w('use super::queue::{Queue, QueueDeclareOptions, QueueDeleteOptions};')
w('use super::consumer::{Consumer, ConsumerOptions};')
w('use super::exchange::{Exchange, ExchangeDeclareOptions, ExchangeType, Publish, type_str};')
w('//@item src/channel.rs struct Channel')
w('''impl Channel {
    pub open spec fn id(&self) -> u16 { self.inner.inner().id() }
    /// exactly this one emission is allowed on this channel, and nothing anywhere else
    pub open spec fn only(&self, e: ApiEmit) -> bool { forall|id: int, x: ApiEmit| #[trigger] permitted(id, x) <==> (id == self.inner.inner().id() as int && x == e) }
    pub open spec fn did(&self, e: ApiEmit) -> bool { sent(self.inner.inner().id() as int, e) }
    pub open spec fn only_if(&self, p: spec_fn(ApiEmit) -> bool) -> bool { forall|id: int, x: ApiEmit| #[trigger] permitted(id, x) <==> (id == self.inner.inner().id() as int && p(x)) }
    pub open spec fn did_some(&self, p: spec_fn(ApiEmit) -> bool) -> bool { exists|x: ApiEmit| #[trigger] sent(self.inner.inner().id() as int, x) && p(x) }
    pub open spec fn nothing(&self) -> bool { forall|id: int, x: ApiEmit| !#[trigger] permitted(id, x) }
}''')
w('//@impl src/channel.rs ::: Drop for Channel ::: rehost impl Channel')
w('//@fn drop props=C12')
w('//@sig')
w('        requires forall|id: int, x: ApiEmit| #[trigger] permitted(id, x) <==> (!old(self).closed && id == old(self).id() as int && x == ApiEmit::Close),')
w('        ensures final(self).closed, final(self).id() == old(self).id(), // [C12.drop_closes_once]')
w('//@end')
w('//@endimpl')
w('//@impl src/channel.rs ::: impl Channel')
w('''//@fn new props=C12
//@sig
        ensures r.id() == handle.id(), !r.closed,
//@end
//@fn close props=C12
//@sig
        requires forall|id: int, x: ApiEmit| #[trigger] permitted(id, x) <==> (!self.closed && id == self.id() as int && x == ApiEmit::Close),
        ensures r is Ok && !self.closed ==> self.did(ApiEmit::Close), // [C12.close_emits_channel_close]
//@end
//@fn close_impl props=C12
//@sig
        requires forall|id: int, x: ApiEmit| #[trigger] permitted(id, x) <==> (!old(self).closed && id == old(self).id() as int && x == ApiEmit::Close),
        ensures final(self).closed, final(self).id() == old(self).id(),
            r is Ok && !old(self).closed ==> old(self).did(ApiEmit::Close), // [C12.close_emits_channel_close]
            old(self).closed ==> r is Ok, // [C12.close_twice_emits_nothing]
//@end
//@fn channel_id props=C12
//@sig
        ensures r == self.id(),
//@end
//@fn call props=C12,C04
//@sig
        requires permitted(self.id() as int, ApiEmit::Call(method.spec_class())),
        ensures r is Ok ==> self.did(ApiEmit::Call(method.spec_class())) && (exists|class: AMQPClass| #![auto] T::spec_try(class) == Some(r->Ok_0)),
//@end
//@fn call_nowait props=C12,C04
//@sig
        requires permitted(self.id() as int, ApiEmit::Nowait(method.spec_class())),
        ensures r is Ok ==> self.did(ApiEmit::Nowait(method.spec_class())),
//@end''')
fn_exact('qos', call(B % 'Qos(Qos { prefetch_size, prefetch_count, global })'), 'C12.qos')
fn_exact('recover', call(B % 'Recover(Recover { requeue })'), 'C12.recover')
pub = B % ('Publish(AmqpPublish { ticket: 0, exchange: %s, routing_key: publish.routing_key, mandatory: publish.mandatory, immediate: publish.immediate })' % S('exchange'))
w('''//@fn basic_publish props=C12,C02
//@sig
        requires forall|id: int, x: ApiEmit| #[trigger] permitted(id, x) <==> (id == self.id() as int && (
                x == %s
                || x == (ApiEmit::Content { class_id: 60, body: publish.body@, properties: publish.properties }))),
        ensures r is Ok ==> self.did(%s), // [C02,C12.publish_method_fields]
            r is Ok ==> self.did(ApiEmit::Content { class_id: 60, body: publish.body@, properties: publish.properties }), // [C02,C12.publish_content]
//@end''' % (nowait(pub), nowait(pub)))
for nm, var, ty in (('listen_for_publisher_confirms', 'SetPubConfirmHandler', 'Confirm'), ('listen_for_returns', 'SetReturnHandler', 'Return')):
    w('''//@fn %s props=C13,C12
//@sig
        requires self.only_if(|x: ApiEmit| x matches ApiEmit::%s(Some(_))),
        // the receiving end handed back is the one paired with the sender that was registered
        ensures r is Ok ==> (exists|tx: CrossbeamSender<%s>| #![auto] tx.id() == r->Ok_0.id() && self.did(ApiEmit::%s(Some(tx)))), // [C13,C12.listener_registered_and_paired]
//@end''' % (nm, var, ty, var))
fn_exact('enable_publisher_confirms', call(CF % 'Select(ConfirmSelect { nowait: false })'), 'C12.confirm_select')
fn_exact('enable_publisher_confirms_nowait', nowait(CF % 'Select(ConfirmSelect { nowait: true })'), 'C12.confirm_select_nowait')


def qdecl(passive, nowait_, durable='options.durable', exclusive='options.exclusive', auto_delete='options.auto_delete', arguments='options.arguments'):
    return Q % ('Declare(%s { ticket: 0, queue: %s, passive: %s, durable: %s, exclusive: %s, auto_delete: %s, nowait: %s, arguments: %s })' % (
        QD, S('queue'), passive, durable, exclusive, auto_delete, nowait_, arguments))


REPLY = ('r is Ok ==> (exists|class: AMQPClass| (#[trigger] QueueDeclareOk::spec_try(class) matches Some(ok) && r->Ok_0.name == ok.queue\n'
         '                && r->Ok_0.message_count == Some(ok.message_count) && r->Ok_0.consumer_count == Some(ok.consumer_count))) && r->Ok_0.channel == self, // [C04.queue_declare_returns_reply_values]')
fn_exact('queue_declare', call(qdecl('false', 'false')), 'C12.queue_declare', props='C12,C04', extra_ens=REPLY)
fn_exact('queue_declare_nowait', nowait(qdecl('false', 'true')), 'C12.queue_declare_nowait',
         extra_ens='r is Ok ==> r->Ok_0.name == %s && r->Ok_0.message_count is None && r->Ok_0.consumer_count is None && %s@.len() > 0, // [C12.nowait_declare_needs_a_name]' % (S('queue'), S('queue')))
fn_exact('queue_declare_passive', call(qdecl('true', 'false', 'false', 'false', 'false', 'spec_empty_field_table()')), 'C12.queue_declare_passive', props='C12,C04', extra_ens=REPLY)
fn_exact('basic_get', 'ApiEmit::Get(AmqpGet { ticket: 0, queue: %s, no_ack })' % S('queue'), 'C12.basic_get')
cons_pred = ('x matches ApiEmit::Consume(c) && c.ticket == 0 && c.queue == %s && c.consumer_tag@.len() == 0 && c.no_local == options.no_local && c.no_ack == options.no_ack '
             '&& c.exclusive == options.exclusive && !c.nowait && c.arguments == options.arguments' % S('queue'))
fn_pred('basic_consume', cons_pred, 'C12.basic_consume', props='C12,C11',
        extra_ens='r is Ok ==> r->Ok_0.channel == self && !r->Ok_0.cancelled.current(),')
qb = lambda nw: Q % ('Bind(QueueBind { ticket: 0, queue: %s, exchange: %s, routing_key: %s, nowait: %s, arguments })' % (S('queue'), S('exchange'), S('routing_key'), nw))
fn_exact('queue_bind', call(qb('false')), 'C12.queue_bind')
fn_exact('queue_bind_nowait', nowait(qb('true')), 'C12.queue_bind_nowait')
fn_exact('queue_unbind', call(Q % ('Unbind(QueueUnbind { ticket: 0, queue: %s, exchange: %s, routing_key: %s, arguments })' % (S('queue'), S('exchange'), S('routing_key')))), 'C12.queue_unbind')
qp = lambda nw: Q % ('Purge(QueuePurge { ticket: 0, queue: %s, nowait: %s })' % (S('queue'), nw))
fn_exact('queue_purge', call(qp('false')), 'C12.queue_purge', props='C12,C04',
         extra_ens='r is Ok ==> (exists|class: AMQPClass| (#[trigger] QueuePurgeOk::spec_try(class) matches Some(ok) && r->Ok_0 == ok.message_count)), // [C04.purge_returns_reply_count]')
fn_exact('queue_purge_nowait', nowait(qp('true')), 'C12.queue_purge_nowait')
qdl = lambda nw: Q % ('Delete(%s { ticket: 0, queue: %s, if_unused: options.if_unused, if_empty: options.if_empty, nowait: %s })' % (QDel, S('queue'), nw))
fn_exact('queue_delete', call(qdl('false')), 'C12.queue_delete', props='C12,C04',
         extra_ens='r is Ok ==> (exists|class: AMQPClass| (#[trigger] QueueDeleteOk::spec_try(class) matches Some(ok) && r->Ok_0 == ok.message_count)), // [C04.delete_returns_reply_count]')
fn_exact('queue_delete_nowait', nowait(qdl('true')), 'C12.queue_delete_nowait')


def xdecl_pred(kind, passive, nw, durable='options.durable', auto_delete='options.auto_delete', internal='options.internal', arguments='options.arguments', ty='type_str(type_)'):
    return ('x matches ApiEmit::%s(AMQPClass::Exchange(AmqpExchange::Declare(d))) && d.ticket == 0 && d.exchange == %s && d.type_@ == %s && d.passive == %s && d.durable == %s '
            '&& d.auto_delete == %s && d.internal == %s && d.nowait == %s && d.arguments == %s' % (kind, S('exchange'), ty, passive, durable, auto_delete, internal, nw, arguments))


XNAME = 'r is Ok ==> r->Ok_0.name == %s && r->Ok_0.channel == self,' % S('exchange')
fn_pred('exchange_declare', xdecl_pred('Call', 'false', 'false'), 'C12.exchange_declare', extra_ens=XNAME)
fn_pred('exchange_declare_nowait', xdecl_pred('Nowait', 'false', 'true'), 'C12.exchange_declare_nowait', extra_ens=XNAME)
fn_pred('exchange_declare_passive', xdecl_pred('Call', 'true', 'false', 'false', 'false', 'false', 'spec_empty_field_table()', '"direct"@'), 'C12.exchange_declare_passive', extra_ens=XNAME)
xb = lambda nw: X % ('Bind(ExchangeBind { ticket: 0, destination: %s, source: %s, routing_key: %s, nowait: %s, arguments })' % (S('destination'), S('source'), S('routing_key'), nw))
fn_exact('exchange_bind', call(xb('false')), 'C12.exchange_bind_destination_then_source')
fn_exact('exchange_bind_nowait', nowait(xb('true')), 'C12.exchange_bind_nowait')
xu = lambda nw: X % ('Unbind(ExchangeUnbind { ticket: 0, destination: %s, source: %s, routing_key: %s, nowait: %s, arguments })' % (S('destination'), S('source'), S('routing_key'), nw))
fn_exact('exchange_unbind', call(xu('false')), 'C12.exchange_unbind_destination_then_source')
fn_exact('exchange_unbind_nowait', nowait(xu('true')), 'C12.exchange_unbind_nowait')
xd = lambda nw: X % ('Delete(ExchangeDelete { ticket: 0, exchange: %s, if_unused, nowait: %s })' % (S('exchange'), nw))
fn_exact('exchange_delete', call(xd('false')), 'C12.exchange_delete')
fn_exact('exchange_delete_nowait', nowait(xd('true')), 'C12.exchange_delete_nowait')
fn_exact('ack_all', nowait(B % 'Ack(Ack { delivery_tag: 0, multiple: true })'), 'C12.ack_all')
# the crate-internal ack/nack/reject: every caller must have checked that the delivery arrived on this channel
CHK = 'delivery.channel_id == self.id(), // [C12.delivery_acked_only_on_its_own_channel]'
fn_exact('basic_ack', nowait(B % 'Ack(Ack { delivery_tag: delivery.delivery_tag, multiple })'), 'C12.basic_ack', extra_req=CHK)
fn_exact('nack_all', nowait(B % 'Nack(Nack { delivery_tag: 0, multiple: true, requeue })'), 'C12.nack_all')
fn_exact('basic_nack', nowait(B % 'Nack(Nack { delivery_tag: delivery.delivery_tag, multiple, requeue })'), 'C12.basic_nack', extra_req=CHK)
fn_exact('basic_reject', nowait(B % 'Reject(Reject { delivery_tag: delivery.delivery_tag, requeue })'), 'C12.basic_reject', extra_req=CHK)
fn_pred('basic_cancel', 'x matches ApiEmit::Call(AMQPClass::Basic(AmqpBasic::Cancel(c))) && c.consumer_tag@ == consumer.consumer_tag@ && !c.nowait', 'C12,C11.basic_cancel', props='C12,C11')
w('//@endimpl')
w('} // mod channel')

# ------------------------------------------------------------------------------------------------ queue.rs
w('pub mod queue {')
w('use vstd::prelude::*;')
w('use super::*;')
w('broadcast use {super::string_axioms::axiom_into_string_id, super::string_axioms::axiom_string_ext};')
w('use super::channel::Channel;')
w('use super::consumer::{Consumer, ConsumerOptions};')
w('use super::exchange::Exchange;')
w('use super::amq_protocol::protocol::queue::{Declare, Delete};')
w('//@item src/queue.rs struct Queue')
w('//@item src/queue.rs struct QueueDeclareOptions noattrs')
w('//@item src/queue.rs struct QueueDeleteOptions noattrs')
w('impl Clone for QueueDeleteOptions { #[verifier::external_body] fn clone(&self) -> (r: Self) ensures r == *self { unimplemented!() } }')
w('impl Copy for QueueDeleteOptions {}')
w('''//@impl src/queue.rs ::: impl QueueDeclareOptions
//@fn into_declare props=C12
//@sig
        ensures r == (Declare { ticket: 0, queue, passive, durable: self.durable, exclusive: self.exclusive, auto_delete: self.auto_delete, nowait, arguments: self.arguments }), // [C12.queue_declare_fields]
//@end
//@endimpl
//@impl src/queue.rs ::: impl QueueDeleteOptions
//@fn into_delete props=C12
//@sig
        ensures r == (Delete { ticket: 0, queue, if_unused: self.if_unused, if_empty: self.if_empty, nowait }), // [C12.queue_delete_fields]
//@end
//@endimpl''')
w("//@impl src/queue.rs ::: impl<'a> Queue<'a>")
w('''//@fn new props=C12
//@sig
        ensures r.channel == channel, r.name == name, r.message_count == message_count, r.consumer_count == consumer_count,
//@end
//@fn name props=C12
//@sig
        ensures spec_into_string(r) == self.name, r@ == self.name@,
//@end
//@fn declared_message_count props=C04
//@sig
        ensures r == self.message_count,
//@end
//@fn declared_consumer_count props=C04
//@sig
        ensures r == self.consumer_count,
//@end''')
CH = 'self.channel'
fn_exact('get', 'ApiEmit::Get(AmqpGet { ticket: 0, queue: self.name, no_ack })', 'C12.queue_wrapper_passes_own_name', recv=CH)
fn_pred('consume', 'x matches ApiEmit::Consume(c) && c.ticket == 0 && c.queue == self.name && c.consumer_tag@.len() == 0 && c.no_local == options.no_local && c.no_ack == options.no_ack '
        '&& c.exclusive == options.exclusive && !c.nowait && c.arguments == options.arguments', 'C12.queue_wrapper_passes_own_name', recv=CH)
qbw = lambda nw: Q % ('Bind(QueueBind { ticket: 0, queue: self.name, exchange: exchange.name, routing_key: %s, nowait: %s, arguments })' % (S('routing_key'), nw))
fn_exact('bind', call(qbw('false')), 'C12.queue_wrapper_passes_own_name', recv=CH)
fn_exact('bind_nowait', nowait(qbw('true')), 'C12.queue_wrapper_passes_own_name', recv=CH)
fn_exact('unbind', call(Q % ('Unbind(QueueUnbind { ticket: 0, queue: self.name, exchange: exchange.name, routing_key: %s, arguments })' % S('routing_key'))), 'C12.queue_wrapper_passes_own_name', recv=CH)
fn_exact('purge', call(Q % 'Purge(QueuePurge { ticket: 0, queue: self.name, nowait: false })'), 'C12.queue_wrapper_passes_own_name', recv=CH)
fn_exact('purge_nowait', nowait(Q % 'Purge(QueuePurge { ticket: 0, queue: self.name, nowait: true })'), 'C12.queue_wrapper_passes_own_name', recv=CH)
fn_exact('delete', call(Q % 'Delete(Delete { ticket: 0, queue: self.name, if_unused: options.if_unused, if_empty: options.if_empty, nowait: false })'), 'C12.queue_wrapper_passes_own_name', recv=CH)
fn_exact('delete_nowait', nowait(Q % 'Delete(Delete { ticket: 0, queue: self.name, if_unused: options.if_unused, if_empty: options.if_empty, nowait: true })'), 'C12.queue_wrapper_passes_own_name', recv=CH)
w('//@endimpl')
w('} // mod queue')

# ------------------------------------------------------------------------------------------------ exchange.rs
w('pub mod exchange {')
w('use vstd::prelude::*;')
w('use super::*;')
w('broadcast use {super::string_axioms::axiom_into_string_id, super::string_axioms::axiom_string_ext};')
w('use super::channel::Channel;')
w('use super::amq_protocol::protocol::basic::AMQPProperties as AmqpProperties;')
w('use super::amq_protocol::protocol::exchange::Declare;')
w('//@item src/exchange.rs enum ExchangeType noattrs')
w('//@item src/exchange.rs struct ExchangeDeclareOptions noattrs')
w('//@item src/exchange.rs struct Publish noattrs')
w('//@item src/exchange.rs struct Exchange')
w('''/// the exchange type names of AMQP 0-9-1
pub open spec fn type_str(t: ExchangeType) -> Seq<char> {
    match t { ExchangeType::Direct => "direct"@, ExchangeType::Fanout => "fanout"@, ExchangeType::Topic => "topic"@, ExchangeType::Headers => "headers"@, ExchangeType::Custom(s) => s@ }
}
//@impl src/exchange.rs ::: impl AsRef<str> for ExchangeType
//@fn as_ref props=C12
//@sig
        ensures r@ == type_str(*self), // [C12.exchange_type_names]
//@end
//@endimpl
//@impl src/exchange.rs ::: impl ExchangeDeclareOptions
//@fn into_declare props=C12
//@sig
        ensures r.ticket == 0 && r.exchange == name && r.passive == passive && r.type_@ == type_str(type_) && r.durable == self.durable && r.auto_delete == self.auto_delete
            && r.internal == self.internal && r.nowait == nowait && r.arguments == self.arguments, // [C12.exchange_declare_fields]
//@end
//@endimpl''')
w("//@impl src/exchange.rs ::: impl<'a> Publish<'a>")
w('''//@fn new props=C02,C12
//@sig
        ensures r.body@ == body@, r.routing_key == spec_into_string(routing_key), !r.mandatory, !r.immediate, r.properties == AmqpProperties::spec_default(), // [C02.publish_defaults]
//@end
//@fn with_properties props=C02,C12
//@sig
        ensures r.body@ == body@, r.routing_key == spec_into_string(routing_key), !r.mandatory, !r.immediate, r.properties == properties, // [C02.publish_carries_given_properties]
//@end
//@endimpl''')
w("//@impl src/exchange.rs ::: impl Exchange<'_>")
w('''//@fn new props=C12
//@sig
        ensures r.channel == channel, r.name == name,
//@end
//@fn direct props=C12
//@sig
        ensures r.channel == channel, r.name@ == ""@, // [C12.default_exchange_is_the_empty_name]
//@end
//@fn name props=C12
//@sig
        ensures spec_into_string(r) == self.name, r@ == self.name@,
//@end''')
pubw = B % 'Publish(AmqpPublish { ticket: 0, exchange: self.name, routing_key: publish.routing_key, mandatory: publish.mandatory, immediate: publish.immediate })'
w('''//@fn publish props=C12,C02
//@sig
        requires forall|id: int, x: ApiEmit| #[trigger] permitted(id, x) <==> (id == self.channel.id() as int && (
                x == %s
                || x == (ApiEmit::Content { class_id: 60, body: publish.body@, properties: publish.properties }))),
        ensures r is Ok ==> self.channel.did(%s), // [C02,C12.exchange_wrapper_passes_own_name]
            r is Ok ==> self.channel.did(ApiEmit::Content { class_id: 60, body: publish.body@, properties: publish.properties }), // [C02,C12.publish_content]
//@end''' % (nowait(pubw), nowait(pubw)))
xbw = lambda kind, dst, src, nw: X % ('%s { ticket: 0, destination: %s, source: %s, routing_key: %s, nowait: %s, arguments })' % (kind, dst, src, S('routing_key'), nw))
fn_exact('bind_to_source', call(xbw('Bind(ExchangeBind', 'self.name', 'source.name', 'false')), 'C12.source_versus_destination', recv=CH)
fn_exact('bind_to_source_nowait', nowait(xbw('Bind(ExchangeBind', 'self.name', 'source.name', 'true')), 'C12.source_versus_destination', recv=CH)
fn_exact('bind_to_destination', call(xbw('Bind(ExchangeBind', 'destination.name', 'self.name', 'false')), 'C12.source_versus_destination', recv=CH)
fn_exact('bind_to_destination_nowait', nowait(xbw('Bind(ExchangeBind', 'destination.name', 'self.name', 'true')), 'C12.source_versus_destination', recv=CH)
fn_exact('unbind_from_source', call(xbw('Unbind(ExchangeUnbind', 'self.name', 'source.name', 'false')), 'C12.source_versus_destination', recv=CH)
fn_exact('unbind_from_source_nowait', nowait(xbw('Unbind(ExchangeUnbind', 'self.name', 'source.name', 'true')), 'C12.source_versus_destination', recv=CH)
fn_exact('unbind_from_destination', call(xbw('Unbind(ExchangeUnbind', 'destination.name', 'self.name', 'false')), 'C12.source_versus_destination', recv=CH)
fn_exact('unbind_from_destination_nowait', nowait(xbw('Unbind(ExchangeUnbind', 'destination.name', 'self.name', 'true')), 'C12.source_versus_destination', recv=CH)
fn_exact('delete', call(X % 'Delete(ExchangeDelete { ticket: 0, exchange: self.name, if_unused, nowait: false })'), 'C12.exchange_wrapper_passes_own_name', recv=CH)
fn_exact('delete_nowait', nowait(X % 'Delete(ExchangeDelete { ticket: 0, exchange: self.name, if_unused, nowait: true })'), 'C12.exchange_wrapper_passes_own_name', recv=CH)
w('//@endimpl')
w('} // mod exchange')

# ------------------------------------------------------------------------------------------------ consumer.rs
w('pub mod consumer {')
w('use vstd::prelude::*;')
w('use super::*;')
w('broadcast use {super::string_axioms::axiom_into_string_id, super::string_axioms::axiom_string_ext};')
w('use super::channel::Channel;')
w('//@item src/consumer.rs struct ConsumerOptions noattrs')
w('//@item src/consumer.rs struct Consumer')
CANCEL_REQ = ('forall|id: int, x: ApiEmit| #[trigger] permitted(id, x) <==> (!SELF.cancelled.current() && id == SELF.channel.id() as int '
              '&& (x matches ApiEmit::Call(AMQPClass::Basic(AmqpBasic::Cancel(c))) && c.consumer_tag@ == SELF.consumer_tag@ && !c.nowait))')
w("//@impl src/consumer.rs ::: Drop for Consumer<'_> ::: rehost impl Consumer<'_>")
w('//@fn drop props=C11')
w('//@sig')
w('        requires ' + CANCEL_REQ.replace('SELF', 'old(self)') + ',')
w('        ensures !old(self).cancelled.current() ==> cell_written(old(self).cancelled.id(), true), // [C11.drop_cancels]')
w('//@end')
w('//@endimpl')
w("//@impl src/consumer.rs ::: impl Consumer<'_>")
w('''//@fn new props=C11
//@sig
        ensures r.channel == channel, r.consumer_tag == consumer_tag, r.rx == rx, !r.cancelled.current(),
//@end
//@fn consumer_tag props=C11
//@sig
        ensures spec_into_string(r) == self.consumer_tag, r@ == self.consumer_tag@,
//@end
//@fn receiver props=C11
//@sig
        ensures *r == self.rx,
//@end''')
w('//@fn cancel props=C11,C12')
w('//@sig')
w('        requires ' + CANCEL_REQ.replace('SELF', 'self') + ',')
w('        ensures self.cancelled.current() ==> r is Ok, // [C11.cancel_twice_sends_nothing]')
w('            !self.cancelled.current() ==> cell_written(self.cancelled.id(), true), // [C11.cancel_marks_cancelled]')
w('            !self.cancelled.current() && r is Ok ==> self.channel.did_some(|x: ApiEmit| x matches ApiEmit::Call(AMQPClass::Basic(AmqpBasic::Cancel(c))) && c.consumer_tag@ == self.consumer_tag@ && !c.nowait), // [C11,C12.cancel_emits_basic_cancel]')
w('//@end')


def ackish(name, method, label, recv_ch, tagexpr, selfexpr='delivery'):
    """ack / nack / reject of a delivery through a channel: only on the channel it arrived on, otherwise nothing is sent (the call panics)"""
    w('//@fn %s props=C12' % name)
    w('//@sig')
    w('        requires forall|id: int, x: ApiEmit| #[trigger] permitted(id, x) <==> (%s.channel_id == %s.id() && id == %s.id() as int && x == %s),' % (selfexpr, recv_ch, recv_ch, nowait(method)))
    w('        ensures %s.channel_id == %s.id(), // [C12.other_channel_panics_instead_of_sending]' % (selfexpr, recv_ch))
    w('            r is Ok ==> %s.did(%s), // [%s]' % (recv_ch, nowait(method), label))
    w('//@end')


for nm, meth in (('ack', B % 'Ack(Ack { delivery_tag: delivery.delivery_tag, multiple: false })'),
                 ('ack_multiple', B % 'Ack(Ack { delivery_tag: delivery.delivery_tag, multiple: true })'),
                 ('nack', B % 'Nack(Nack { delivery_tag: delivery.delivery_tag, multiple: false, requeue })'),
                 ('nack_multiple', B % 'Nack(Nack { delivery_tag: delivery.delivery_tag, multiple: true, requeue })'),
                 ('reject', B % 'Reject(Reject { delivery_tag: delivery.delivery_tag, requeue })')):
    ackish(nm, meth, 'C12.consumer_' + nm, 'self.channel', 'delivery.delivery_tag')
w('//@endimpl')
w('} // mod consumer')

# ------------------------------------------------------------------------------------------------ delivery.rs / get.rs
w('pub mod delivery {')
w('use vstd::prelude::*;')
w('use super::*;')
w('broadcast use {super::string_axioms::axiom_into_string_id, super::string_axioms::axiom_string_ext};')
w('use super::channel::Channel;')
w('//@impl src/delivery.rs ::: impl Delivery')
w('//@skip new new_get_ok')
w('''//@fn delivery_tag props=C12
//@sig
        ensures r == self.delivery_tag,
//@end''')
for nm, meth in (('ack', B % 'Ack(Ack { delivery_tag: self.delivery_tag, multiple: false })'),
                 ('ack_multiple', B % 'Ack(Ack { delivery_tag: self.delivery_tag, multiple: true })'),
                 ('nack', B % 'Nack(Nack { delivery_tag: self.delivery_tag, multiple: false, requeue })'),
                 ('nack_multiple', B % 'Nack(Nack { delivery_tag: self.delivery_tag, multiple: true, requeue })'),
                 ('reject', B % 'Reject(Reject { delivery_tag: self.delivery_tag, requeue })')):
    ackish(nm, meth, 'C12.delivery_' + nm, 'channel', 'self.delivery_tag', selfexpr='self')
w('//@endimpl')
w('//@impl src/get.rs ::: impl Get')
for nm, meth in (('ack', B % 'Ack(Ack { delivery_tag: self.delivery.delivery_tag, multiple: false })'),
                 ('ack_multiple', B % 'Ack(Ack { delivery_tag: self.delivery.delivery_tag, multiple: true })'),
                 ('nack', B % 'Nack(Nack { delivery_tag: self.delivery.delivery_tag, multiple: false, requeue })'),
                 ('nack_multiple', B % 'Nack(Nack { delivery_tag: self.delivery.delivery_tag, multiple: true, requeue })'),
                 ('reject', B % 'Reject(Reject { delivery_tag: self.delivery.delivery_tag, requeue })')):
    ackish(nm, meth, 'C12.get_' + nm, 'channel', '', selfexpr='self.delivery')
w('//@endimpl')
w('} // mod delivery')

open(os.path.join(HERE, 'unit.vrs'), 'w').write(HEADER + '\n'.join(out) + '\n//@end-export\n\nfn main() {}\n} // verus!\n')
print('wrote unit.vrs with %d lines' % (len(out) + HEADER.count('\n')))
